// Package c19 drives the extension payload types of mellium.im/xmpp (property
// C19): every writer path of every listed type, their unmarshallers, and the
// data form API (Set/Get/Submit).
//
// Layer 3 (all types): the property's equations are evaluated on the real code
// (printed XML well-formed, MarshalXML and TokenReader/WriteXML decode to the
// same value, that value equals the documented normal form of the original,
// no panic on construction/marshalling, arbitrary XML unmarshals to a value or
// an error).
//
// Layer 1 tie: every raw token stream a TokenReader produced is handed to the
// Lean model's nesting check (`bal`).  Layer 2 tie: the modelled codecs (data
// forms, result sets, disco, roster, …) are compared token by token and value
// by value (`fenc/fdec/fsub/fget`, `enc/dec`).
//
// A case is replayed from its `val <type> <subseed> <bad>` line (the value is
// regenerated from the sub-seed) or its `xml <type> <hex>` line.
package c19

import (
	"bytes"
	"os"
	"encoding/hex"
	"encoding/xml"
	"fmt"
	"sort"
	"strconv"
	"strings"

	"mellium.im/xmpp/form"

	"verifharness/common"
)

type ctx struct {
	r *common.Run
	// rnd: the run's generator.  common.NewRand(seed) starts seed n+1 exactly one draw after
	// seed n (its state is seed*γ + c and every draw adds γ), so consecutive VERIF_SEEDs would
	// replay almost the same sub-seeds; the seed is therefore mixed before it is used.
	rnd *common.Rand
	// skel: prefix code of the regenerated skeleton of every writer of the working tree
	skel map[string]string
}

// mixSeed is the splitmix64 finaliser: unrelated streams for neighbouring seeds.
func mixSeed(s uint64) uint64 {
	z := (s + 0x632BE59BD9B4E019) * 0xBF58476D1CE4E5B9
	z = (z ^ (z >> 29)) * 0x94D049BB133111EB
	return z ^ (z >> 32)
}

func repoDir() string {
	if d := os.Getenv("VERIF_REPO"); d != "" {
		return d
	}
	return "/repo"
}

// skelLine ties the regenerated skeleton of a writer to one of its real token streams.
func (c *ctx) skelLine(writer string, toks []xml.Token) {
	if code, ok := c.skel[writer]; ok {
		c.r.Line("skel "+code+" "+common.EncToks(toks), "1")
	}
}

func find(name string) *entry {
	for i := range registry {
		if registry[i].name == name {
			return &registry[i]
		}
	}
	return nil
}

// ---- arbitrary XML for the unmarshallers ---------------------------------------------

func printToks(toks []xml.Token) []byte {
	var b bytes.Buffer
	for _, t := range toks {
		switch t := t.(type) {
		case xml.StartElement:
			b.WriteString("<" + t.Name.Local)
			if t.Name.Space != "" {
				b.WriteString(` xmlns="`)
				_ = xml.EscapeText(&b, []byte(t.Name.Space))
				b.WriteString(`"`)
			}
			for _, a := range t.Attr {
				n := a.Name.Local
				if a.Name.Space == "http://www.w3.org/XML/1998/namespace" {
					n = "xml:" + n
				} else if a.Name.Space != "" {
					continue
				}
				b.WriteString(" " + n + `="`)
				_ = xml.EscapeText(&b, []byte(a.Value))
				b.WriteString(`"`)
			}
			b.WriteString(">")
		case xml.EndElement:
			b.WriteString("</" + t.Name.Local + ">")
		case xml.CharData:
			_ = xml.EscapeText(&b, t)
		case xml.Comment:
			b.WriteString("<!--" + string(t) + "-->")
		case xml.ProcInst:
			b.WriteString("<?" + t.Target + " " + string(t.Inst) + "?>")
		case xml.Directive:
			b.WriteString("<!" + string(t) + ">")
		}
	}
	return b.Bytes()
}

var junk = []string{"", " ", "x", "-1", "18446744073709551616", "true", "notanumber", "2006-01-02", "a@b@c", "\n", "0", "!!!!", "QQ", "=", "9999999999999999999999"}

// subtreeEnd returns the index after the element starting at i.
func subtreeEnd(toks []xml.Token, i int) int {
	depth := 0
	for j := i; j < len(toks); j++ {
		switch toks[j].(type) {
		case xml.StartElement:
			depth++
		case xml.EndElement:
			depth--
			if depth <= 0 {
				return j + 1
			}
		}
	}
	return len(toks)
}

func mutate(rnd *common.Rand, toks []xml.Token) []xml.Token {
	out := append([]xml.Token(nil), toks...)
	n := 1 + rnd.Intn(3)
	for k := 0; k < n && len(out) > 0; k++ {
		i := rnd.Intn(len(out))
		filler := []xml.Token{xml.CharData(" \n "), xml.Comment("c"), xml.ProcInst{Target: "pi", Inst: []byte("x")}, xml.CharData("text"),
			xml.StartElement{Name: xml.Name{Local: "unknown"}}, xml.Directive("DOCTYPE x")}
		switch rnd.Intn(10) {
		case 0: // insert a non-element token / an unknown empty element after position i
			f := filler[rnd.Intn(len(filler))]
			ins := []xml.Token{f}
			if s, ok := f.(xml.StartElement); ok {
				ins = append(ins, s.End())
			}
			out = append(out[:i+1], append(ins, out[i+1:]...)...)
		case 1: // delete a subtree or a token
			if _, ok := out[i].(xml.StartElement); ok && i > 0 {
				out = append(out[:i], out[subtreeEnd(out, i):]...)
			} else if _, ok := out[i].(xml.CharData); ok {
				out = append(out[:i], out[i+1:]...)
			}
		case 2: // duplicate a subtree
			if _, ok := out[i].(xml.StartElement); ok && i > 0 {
				e := subtreeEnd(out, i)
				dup := append([]xml.Token(nil), out[i:e]...)
				out = append(out[:e], append(dup, out[e:]...)...)
			}
		case 3: // junk attribute value / drop attribute
			if s, ok := out[i].(xml.StartElement); ok && len(s.Attr) > 0 {
				a := append([]xml.Attr(nil), s.Attr...)
				j := rnd.Intn(len(a))
				if rnd.Bool() {
					a[j].Value = junk[rnd.Intn(len(junk))]
				} else {
					a = append(a[:j], a[j+1:]...)
				}
				s.Attr = a
				out[i] = s
			}
		case 4: // junk text
			if _, ok := out[i].(xml.CharData); ok {
				out[i] = xml.CharData(junk[rnd.Intn(len(junk))])
			}
		case 5: // rename / re-namespace an element (start and end consistently)
			if s, ok := out[i].(xml.StartElement); ok {
				e := subtreeEnd(out, i) - 1
				if rnd.Bool() {
					s.Name.Local = "other"
				} else {
					s.Name.Space = "urn:other"
				}
				out[i] = s
				if e > i && e < len(out) {
					out[e] = s.End()
				}
			}
		case 6: // nest a copy of a subtree inside itself
			if _, ok := out[i].(xml.StartElement); ok {
				e := subtreeEnd(out, i)
				dup := append([]xml.Token(nil), out[i:e]...)
				out = append(out[:i+1], append(dup, out[i+1:]...)...)
			}
		case 7: // whitespace before the first child of an element
			if _, ok := out[i].(xml.StartElement); ok {
				out = append(out[:i+1], append([]xml.Token{xml.CharData("\n  ")}, out[i+1:]...)...)
			}
		case 8: // empty the element
			if _, ok := out[i].(xml.StartElement); ok {
				e := subtreeEnd(out, i)
				if e-1 > i+1 {
					out = append(out[:i+1], out[e-1:]...)
				}
			}
		case 9: // truncate
			if i > 0 && rnd.Chance(1, 3) {
				out = out[:i]
			}
		}
	}
	return out
}

func (c *ctx) xmlCase(e *entry, b []byte, class string) {
	r := c.r
	r.Line(lineKey(e.name, b), "-")
	pan, err := e.unmarshal(b)
	r.Case(lineKey(e.name, b), err == nil, class+"/"+e.name)
	if pan != "" {
		r.Fail("unmarshal-total", e.name+"/"+panicClass(pan), []string{r.Prop + " " + lineKey(e.name, b)},
			fmt.Sprintf("unmarshalling %q into %s panicked: %s", b, e.name, pan))
	} else if err == nil && e.decoded != nil {
		e.decoded(c, b, []string{r.Prop + " " + lineKey(e.name, b)})
	}
}

func lineKey(name string, b []byte) string {
	return "xml " + strings.ReplaceAll(name, " ", "_") + " " + common.Hex(b)
}

func (c *ctx) fuzzType(e *entry, rnd *common.Rand, n int) {
	if !e.dec {
		return
	}
	// generic documents
	for _, d := range []string{"<x/>", "<x> </x>", "<x><y/></x>", "<x>text</x>", "<x><!-- c --></x>", "<x a='1'><x a='2'/></x>"} {
		c.xmlCase(e, []byte(d), "xml-generic")
	}
	var seeds [][]byte
	for k := 0; k < 6; k++ {
		seeds = append(seeds, e.seeds(rnd.Uint64())...)
	}
	for _, s := range seeds {
		toks, err := common.Tokenize(s)
		if err != nil || len(toks) == 0 {
			continue
		}
		// the bare root, and the root with only whitespace / text / a comment inside
		if st, ok := toks[0].(xml.StartElement); ok {
			bare := xml.StartElement{Name: st.Name}
			for _, inner := range [][]xml.Token{nil, {xml.CharData(" ")}, {xml.CharData("text")}, {xml.Comment("c")},
				{xml.StartElement{Name: xml.Name{Local: "unknown"}}, xml.EndElement{Name: xml.Name{Local: "unknown"}}}} {
				c.xmlCase(e, printToks(append(append([]xml.Token{bare}, inner...), bare.End())), "xml-root")
				c.xmlCase(e, printToks(append(append([]xml.Token{st}, inner...), st.End())), "xml-root")
			}
		}
	}
	for i := 0; i < n && len(seeds) > 0; i++ {
		s := seeds[rnd.Intn(len(seeds))]
		toks, err := common.Tokenize(s)
		if err != nil {
			continue
		}
		c.xmlCase(e, printToks(mutate(rnd, toks)), "xml-mutated")
	}
}

// ---- runner ------------------------------------------------------------------------------

// corpus: sub-seeds of past minimal witnesses per type (always first).
var corpus = map[string][]uint64{}

func (c *ctx) replay(lines []string) {
	for _, l := range lines {
		f := strings.Fields(l)
		if len(f) < 4 || f[0] != "C19" {
			continue
		}
		switch f[1] {
		case "udoc":
			streamReplay(c, f)
		case "val":
			sub, _ := strconv.ParseUint(f[3], 10, 64)
			bad := len(f) > 4 && f[4] == "1"
			if len(f) > 4 && f[4] == "3" {
				if f[2] == "form.Data" {
					formEnum(c, parseScript(f[3]))
				} else if e := find(f[2]); e != nil {
					e.enum(c, parseScript(f[3]))
				}
				continue
			}
			if len(f) > 4 && f[4] == "2" {
				if f[2] == "form.Data" {
					formWitness(c, int(sub))
				} else if e := find(f[2]); e != nil {
					e.wit(c, int(sub))
				}
				continue
			}
			if strings.HasPrefix(f[2], "forward.Unwrap") || strings.HasPrefix(f[2], "carbons.Unwrap") {
				unwrapCase(c, sub, "replay")
				continue
			}
			if strings.HasPrefix(f[2], "pubsub.") && find(f[2]) == nil {
				pubsubCase(c, sub, "replay")
				continue
			}
			switch f[2] {
			case "form.Data":
				formCase(c, sub, bad, "replay")
			case "form.Data(zero)":
				zeroFormCase(c)
			default:
				if e := find(f[2]); e != nil {
					e.one(c, sub, bad, "replay")
				}
			}
		case "xml":
			b, _ := common.UnHex(f[3])
			if f[2] == "form.Data" {
				fe := theFormEntry()
				c.xmlCase(&fe, b, "replay")
			} else if e := find(strings.ReplaceAll(f[2], "_", " ")); e != nil {
				c.xmlCase(e, b, "replay")
			} else if e := find(f[2]); e != nil {
				c.xmlCase(e, b, "replay")
			}
		}
	}
}

// theFormEntry: form.Data as a decoding type (arbitrary / mutated documents, second generation).
func theFormEntry() entry {
	return entry{name: "form.Data", dec: true,
		unmarshal: func(b []byte) (string, error) {
			var d form.Data
			return safeUnmarshal(b, &d)
		},
		seeds: func(sub uint64) [][]byte {
			g := &gen{r: common.NewRand(sub)}
			fd := genFormDesc(g, true)
			b, err := xml.Marshal(fd.build())
			if err != nil {
				return nil
			}
			return [][]byte{b}
		},
		decoded: formDecoded}
}

// Run is the C19 runner.
func Run(r *common.Run) error {
	c := &ctx{r: r, skel: skeletons(repoDir()), rnd: common.NewRand(mixSeed(r.Seed))}
	if r.Replay != "" {
		lines, err := common.ReplayLines(r.Replay)
		if err != nil {
			return err
		}
		c.replay(lines)
		return nil
	}
	sort.SliceStable(registry, func(i, j int) bool { return registry[i].name < registry[j].name })

	// layer 1: C09's checker (compiled from the same Lean definition the theorem is about) on
	// the panic skeleton of every function of the C19 files, regenerated from the working tree
	r.Mark("case pskel")
	if sk, trusted, err := panicSkeletons(repoDir()); err != nil {
		r.Notes = append(r.Notes, "panic skeleton extraction failed: "+err.Error())
		r.Line("pskel k", "extraction-failed")
	} else {
		for _, p := range sk {
			r.Line("pskel "+p[1], "ok")
			r.Case("pskel "+p[0], true, "pskel")
		}
		r.Extra["panic_skeletons"] = len(sk)
		r.Extra["panic_allow_listed_sites"] = trusted
		r.Notes = append(r.Notes, fmt.Sprintf("C19_no_panic_skel / C19_payload_code_never_panics are statements about the panic skeletons after removing %d partial operations accepted through harness/c19/allow.txt (each with a written justification) and the operations harness/c19/arith.go derives to be in range on this tree (listed in Generated/C19.lean)", trusted))
	}

	// corpus first
	r.Mark("case corpus")
	zeroFormCase(c)
	binContentIDCase(c)
	for _, w := range witnessDocs {
		if e := find(w.typ); e != nil {
			c.xmlCase(e, []byte(w.doc), "corpus")
		}
	}
	for i := range registry {
		for k := 0; k < registry[i].nWit; k++ {
			registry[i].wit(c, k)
		}
	}
	for k := range formWitnesses {
		formWitness(c, k)
	}
	for _, sub := range []uint64{1, 2, 3, 4, 5, 6, 7, 8} {
		formCase(c, sub, false, "corpus")
	}

	// small-scope exhaustive part: the tree of generator choices of every type in
	// enumeration mode (every optional field absent/present, 0/1/2 children, the four-value
	// text alphabet, three numbers, three JIDs, two or three times), fewest non-default
	// choices first; complete when the tree fits the cap
	capEnum := r.Pick(400, 6000)
	for i := range registry {
		e := &registry[i]
		r.Mark("case enum %s", strings.ReplaceAll(e.name, " ", "_"))
		n, complete := enumerate(capEnum, func(sc []int) []int { return e.enum(c, sc) })
		if complete {
			r.Exhaustive = append(r.Exhaustive, fmt.Sprintf("%s: all %d values of the enumeration-mode generator", e.name, n))
		} else {
			r.Notes = append(r.Notes, fmt.Sprintf("enumeration of %s truncated at %d values (breadth first)", e.name, n))
		}
	}
	r.Mark("case enum form.Data")
	if n, complete := enumerate(capEnum*3, func(sc []int) []int { return formEnum(c, sc) }); complete {
		r.Exhaustive = append(r.Exhaustive, fmt.Sprintf("form.Data: all %d forms and Set sequences of the enumeration-mode generator", n))
	} else {
		r.Notes = append(r.Notes, fmt.Sprintf("enumeration of form.Data truncated at %d values (breadth first)", n))
	}

	// data forms: the deepest layer
	nForm := r.Pick(1500, 20000)
	for i := 0; i < nForm; i++ {
		r.Mark("case form %d", i)
		formCase(c, c.rnd.Uint64(), i%10 == 9, "random")
	}
	modelCases(c)
	modelCases2(c)

	// every registered type: generated values through every writer path
	nVal := r.Pick(120, 1500)
	for i := range registry {
		e := &registry[i]
		for k := 0; k < nVal; k++ {
			r.Mark("case %s %d", strings.ReplaceAll(e.name, " ", "_"), k)
			e.one(c, c.rnd.Uint64(), k%6 == 5, "random")
		}
	}
	// forwarding / carbons: Wrap then Unwrap
	nUnw := r.Pick(200, 3000)
	for k := 0; k < nUnw; k++ {
		r.Mark("case unwrap %d", k)
		unwrapCase(c, c.rnd.Uint64(), "random")
	}
	// stream decoders (Unwrap on arbitrary documents) and inserting transformers
	streamCases(c)
	pageIterCases(c)
	sessIterCases(c)
	// pubsub request builders on a real session
	nPub := r.Pick(60, 600)
	for k := 0; k < nPub; k++ {
		r.Mark("case pubsub %d", k)
		pubsubCase(c, c.rnd.Uint64(), "random")
	}
	// arbitrary XML into every unmarshaller
	nXML := r.Pick(150, 2500)
	formEntry := theFormEntry()
	r.Mark("case xml")
	c.fuzzType(&formEntry, c.rnd.Fork(), nXML*3)
	for i := range registry {
		c.fuzzType(&registry[i], c.rnd.Fork(), nXML)
	}
	r.Notes = append(r.Notes, fmt.Sprintf("%d payload types registered (+ form.Data); internal/saslerr and muc's unexported join options are not importable from the harness module: layer 1 only", len(registry)))
	return nil
}

// witnessDocs are minimal documents that once made an unmarshaller fail.
var witnessDocs = []struct{ typ, doc string }{
	{"history.Query", `<query xmlns="urn:xmpp:mam:2"/>`},
	{"history.Query", `<query xmlns="urn:xmpp:mam:2" queryid="q"><set xmlns="http://jabber.org/protocol/rsm"><max>1</max></set></query>`},
	{"history.Result", `<fin xmlns="urn:xmpp:mam:2"> <set xmlns="http://jabber.org/protocol/rsm"/></fin>`},
	{"bin.Data", `<data xmlns="urn:xmpp:bob">QQ==</data>`},
	{"crypto.HashOutput", `<hash xmlns="urn:xmpp:hashes:2" algo="sha-1"/>`},
}

var _ = hex.EncodeToString
