package c19

import (
	_ "embed"
	"fmt"
	"os"
	"strings"

	"verifharness/c09"
)

// C19_no_panic_skel: the panic skeletons (C09's IR and translator, used as a library) of
// every function of the C19 files — writers, unmarshallers, constructors, setters, Get /
// Set / Submit — including form/form.go and disco/info.go, which the C09 scope leaves to C19.

//go:embed allow.txt
var panicAllow string

var panicScope = map[string]func(string) bool{
	"form":             nil,
	"disco":            c09.Only("disco/info.go", "disco/items.go", "disco/caps.go"),
	"disco/info":       nil,
	"disco/items":      nil,
	"paging":           nil,
	"delay":            nil,
	"stanza":           c09.Only("stanza/delay.go", "stanza/stanza.go"),
	"xtime":            nil,
	"forward":          nil,
	"carbons":          c09.Only("carbons/carbons.go"),
	"receipts":         nil,
	"roster":           nil,
	"blocklist":        nil,
	"bookmarks":        nil,
	"pubsub":           nil,
	"history":          c09.Only("history/query.go", "history/fin.go"),
	"muc":              c09.Only("muc/types.go", "muc/invites.go", "muc/options.go"),
	"commands":         nil,
	"oob":              nil,
	"version":          nil,
	"upload":           nil,
	"bin":              nil,
	"file":             nil,
	"crypto":           nil,
	"styling":          c09.Only("styling/disable.go"),
	"internal/saslerr": nil,
}

// panicFacts renders the `skeletons` part of Generated/C19.lean.
func panicFacts(repo string) string {
	var b strings.Builder
	an, err := c09.AnalyseDerived(repo, panicScope, panicAllow, deriveAllow)
	if err != nil {
		fmt.Fprintf(&b, "/- panic skeleton extraction failed: %s -/\n", strings.ReplaceAll(err.Error(), "-/", "- /"))
		b.WriteString("def skeletons : Option (List (String × XmppModel.Skeleton.Stmt)) := none\n")
		b.WriteString("def panicTrustedSites : Nat := 0\ndef panicFunctions : List String := []\n")
		return b.String()
	}
	b.WriteString("/-- (function, panic skeleton) for every function and function literal of the C19 files whose\nskeleton has at least one operation on a tracked value or a hazard (C09's translator) -/\n")
	b.WriteString("def skeletons : Option (List (String × XmppModel.Skeleton.Stmt)) := some [\n")
	first, trivial := true, 0
	for _, f := range an.Funcs {
		if !f.Effectful {
			trivial++
			continue
		}
		if !first {
			b.WriteString(",\n")
		}
		first = false
		fmt.Fprintf(&b, "  (%q, %s)", f.Name, f.Lean)
	}
	b.WriteString("]\n\n")
	fmt.Fprintf(&b, "/-- functions in the C19 scope: %d, of which %d have no partial operation at all -/\ndef panicFunctionsInScope : Nat := %d\n", len(an.Funcs), trivial, len(an.Funcs))
	b.WriteString("/-- every function and function literal that was translated (also those whose skeleton is trivial) -/\ndef panicFunctions : List String := [\n")
	for i, f := range an.Funcs {
		sep := ","
		if i == len(an.Funcs)-1 {
			sep = ""
		}
		fmt.Fprintf(&b, "  %q%s\n", f.Name, sep)
	}
	b.WriteString("]\n")
	hand, derived := splitAllow(an)
	fmt.Fprintf(&b, "/-- partial operations accepted through the reviewed allow list (harness/c19/allow.txt) -/\ndef panicTrustedSites : Nat := %d\n", hand)
	fmt.Fprintf(&b, "/-- partial operations accepted because the range analysis of harness/c19/arith.go derived, on this tree, that the guards on every path keep them in range -/\ndef panicDerivedSites : Nat := %d\n\n", derived)
	for _, u := range an.AllowDetail {
		switch {
		case u.Used > 0 && strings.HasPrefix(u.Why, "derived:"):
			fmt.Fprintf(&b, "-- derived in range: %s %s %s\n", u.Fn, u.Kind, u.Desc)
		case u.Used == 0 && !strings.HasPrefix(u.Why, "derived:"):
			fmt.Fprintf(&b, "-- unused allow entry: %s %s %s\n", u.Fn, u.Kind, u.Desc)
		}
	}
	if p := os.Getenv("C19_DUMP"); p != "" {
		var d strings.Builder
		for _, f := range an.Funcs {
			if f.Effectful {
				fmt.Fprintf(&d, "%s\t%s\n", f.Name, f.Code)
			}
		}
		_ = os.WriteFile(p, []byte(d.String()), 0o644)
	}
	b.WriteString("/-! Panic-skeleton sites:\n")
	for _, s := range an.Sites {
		b.WriteString("  " + strings.ReplaceAll(s, "-/", "- /") + "\n")
	}
	b.WriteString("-/\n")
	return b.String()
}

// panicSkeletons returns (name, dotted code) of every effectful panic skeleton of the tree.
func panicSkeletons(repo string) (out [][2]string, trusted int, err error) {
	an, err := c09.AnalyseDerived(repo, panicScope, panicAllow, deriveAllow)
	if err != nil {
		return nil, 0, err
	}
	for _, f := range an.Funcs {
		if f.Effectful {
			out = append(out, [2]string{f.Name, f.Code})
		}
	}
	hand, _ := splitAllow(an)
	return out, hand, nil
}

// splitAllow counts the operations accepted through hand-written entries and through
// entries derived by arith.go.
func splitAllow(an *c09.ExportedAnalysis) (hand, derived int) {
	for _, u := range an.AllowDetail {
		if strings.HasPrefix(u.Why, "derived:") {
			derived += u.Used
		} else {
			hand += u.Used
		}
	}
	return
}
