package c19

import (
	"go/token"

	"verifharness/c09"
)

// DeriveAllow exports the range analysis of arith.go (derived allow entries for
// arithmetic-guarded index / slice operations) so that package main can register it with the
// C09 analysis as well (c09.Derive; c09 cannot import this package).  Add-only.
func DeriveAllow(fset *token.FileSet, pkgs []c09.LoadedPackage) (string, error) {
	return deriveAllow(fset, pkgs)
}
