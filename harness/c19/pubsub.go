package c19

import (
	"context"
	"encoding/xml"
	"fmt"
	"time"

	"mellium.im/xmlstream"
	"mellium.im/xmpp"
	"mellium.im/xmpp/form"
	"mellium.im/xmpp/jid"
	"mellium.im/xmpp/pubsub"

	"verifharness/common"
)

// pubsub has no payload types of its own: its request builders write the
// payload straight into an IQ.  They are driven on a real session over an
// in-memory connection (no peer: the call times out after the request is
// written) and what reached the wire is checked: one well-formed <iq/> whose
// node / item attributes carry the given text.

var pubsubOps = []string{"Publish", "CreateNode", "CreateNodeCfg", "SetConfig", "GetConfig", "Delete", "Fetch"}

func pubsubCase(c *ctx, sub uint64, class string) {
	r := c.r
	g := &gen{r: common.NewRand(sub)}
	op := pubsubOps[g.intn(len(pubsubOps))]
	node, id := g.text(), g.opt()
	line := fmt.Sprintf("val pubsub.%s %d 0", op, sub)
	r.Line(line, "-")
	lines := []string{r.Prop + " " + line}
	r.Case(line, true, class+"/pubsub."+op)
	if !xmlValid(node) || !xmlValid(id) {
		return
	}
	rs, err := common.NewRawSession(0, "jabber:client", jid.MustParse("me@example.net/r"), jid.MustParse("example.net"))
	if err != nil {
		return
	}
	cfg := genFormDesc(g, false).build()
	p := guard(op, func() ([]byte, []xml.Token, error) {
		ctx, cancel := context.WithTimeout(context.Background(), 15*time.Millisecond)
		defer cancel()
		switch op {
		case "Publish":
			item := xmlstream.Wrap(xmlstream.Token(xml.CharData(g.text())), xml.StartElement{Name: xml.Name{Space: "urn:x", Local: "entry"}})
			_, _ = pubsub.Publish(ctx, rs.S, node, id, item)
		case "CreateNode":
			_ = pubsub.CreateNode(ctx, rs.S, node, nil)
		case "CreateNodeCfg":
			_ = pubsub.CreateNode(ctx, rs.S, node, cfg)
		case "SetConfig":
			_ = pubsub.SetConfig(ctx, rs.S, node, cfg)
		case "GetConfig":
			_, _ = pubsub.GetConfig(ctx, rs.S, node)
		case "Delete":
			_ = pubsub.Delete(ctx, rs.S, node, id, g.boolean())
		case "Fetch":
			it := pubsub.Fetch(ctx, rs.S, pubsub.Query{Node: node, Item: id, MaxItems: g.u64()})
			it.Next()
			_ = it.Close()
		}
		return rs.Out.Bytes(), nil, nil
	})
	_ = rs.In.Close()
	if p.panicked != "" {
		r.Fail("no-panic", "pubsub."+op+"/"+panicClass(p.panicked), lines, "panic: "+p.panicked)
		return
	}
	if len(p.out) == 0 {
		r.Hist["pubsub-nothing-written/"+op]++
		return
	}
	r.Hist["pubsub-request-checked/"+op]++
	if err := wellFormed(p.out); err != nil {
		r.Fail("well-formed", "pubsub."+op, lines, fmt.Sprintf("request is not well-formed: %v\n%q", err, p.out))
		return
	}
	toks, err := reparse(p.out)
	if err != nil {
		return
	}
	// the node (and item id) given by the caller must be what a decoder reads back
	foundNode, foundID := false, id == "" || op == "CreateNode" || op == "CreateNodeCfg" || op == "SetConfig" || op == "GetConfig"
	for _, t := range toks {
		if s, ok := t.(xml.StartElement); ok {
			for _, a := range s.Attr {
				if a.Name.Local == "node" && a.Value == node {
					foundNode = true
				}
				if (a.Name.Local == "id" || a.Name.Local == "item") && a.Value == id && s.Name.Local != "iq" {
					foundID = true
				}
			}
		}
	}
	if !foundNode || !foundID {
		r.Fail("roundtrip", fmt.Sprintf("pubsub.%s/node-or-id", op), lines, fmt.Sprintf("node %q / id %q not found in the request\n%q", node, id, p.out))
	}
	_ = form.NS
	_ = xmpp.Ready
}

func contextTimeout(d time.Duration) (context.Context, context.CancelFunc) {
	return context.WithTimeout(context.Background(), d)
}
