package c19

import (
	"go/ast"
	"go/importer"
	"go/parser"
	"go/token"
	"go/types"
	"sort"
	"strings"
	"testing"

	"verifharness/c09"
)

// Idioms added for the C09 scope (mux bufReader cursor with an unsigned offset, the
// "index of the attribute found or just appended" of Session.SendIQ) and what must stay
// undischarged next to them.
const arithC09Src = `package p

type attr struct{ k, v string }

type start struct {
	name string
	attr []attr
}

type rd struct {
	buf []int
	off uint
}

func rnd() string { return "x" }

func find(as []attr) (int, string) {
	at := -1
	for i, a := range as {
		if a.k == "id" {
			at = i
		}
	}
	return at, ""
}

// --- must be discharged ---

func (r *rd) okUnsignedCursor() int {
	if r.off < uint(len(r.buf)) {
		o := r.off
		r.off++
		return r.buf[o]
	}
	return 0
}

func okFoundOrAppended(s start) start {
	idx, id := find(s.attr)
	if idx == -1 {
		idx = len(s.attr)
		s.attr = append(s.attr, attr{k: "id"})
	}
	if id == "" {
		id = rnd()
		s.attr[idx].v = id
	}
	return s
}

// --- must not be discharged ---

func (r *rd) badNarrowCursor() int {
	if r.off < uint(uint8(len(r.buf)))+300 {
		return r.buf[r.off]
	}
	return 0
}

func badAppendNothing(s start) start {
	idx, _ := find(s.attr)
	if idx == -1 {
		idx = len(s.attr)
		s.attr = append(s.attr)
	}
	s.attr[idx].v = "x"
	return s
}

func badAppendSpread(s start, more []attr) start {
	idx, _ := find(s.attr)
	if idx == -1 {
		idx = len(s.attr)
		s.attr = append(s.attr, more...)
	}
	s.attr[idx].v = "x"
	return s
}

func badAppendOther(s, o start) start {
	idx, _ := find(s.attr)
	if idx == -1 {
		idx = len(s.attr)
		o.attr = append(o.attr, attr{})
	}
	s.attr[idx].v = "x"
	return s
}

func badNotAdjacent(s start) start {
	idx, _ := find(s.attr)
	if idx == -1 {
		idx = len(s.attr)
		idx++
		s.attr = append(s.attr, attr{})
	}
	s.attr[idx].v = "x"
	return s
}

func badPointerField(s *start) {
	idx, _ := find(s.attr)
	if idx == -1 {
		idx = len(s.attr)
		s.attr = append(s.attr, attr{})
	}
	clobber(s)
	s.attr[idx].v = "x"
}

func clobber(s *start) { s.attr = nil }

func badAddressTaken(s start) start {
	idx, _ := find(s.attr)
	if idx == -1 {
		idx = len(s.attr)
		s.attr = append(s.attr, attr{})
	}
	clobber(&s)
	s.attr[idx].v = "x"
	return s
}

func badSecondResult(s start) start {
	_, id := find(s.attr)
	n := len(id)
	s.attr[n].v = "x"
	return s
}
`

func TestArithC09Idioms(t *testing.T) {
	fset := token.NewFileSet()
	f, err := parser.ParseFile(fset, "p.go", arithC09Src, 0)
	if err != nil {
		t.Fatal(err)
	}
	info := &types.Info{Types: map[ast.Expr]types.TypeAndValue{}, Defs: map[*ast.Ident]types.Object{}, Uses: map[*ast.Ident]types.Object{},
		Implicits: map[ast.Node]types.Object{}, Selections: map[*ast.SelectorExpr]*types.Selection{}}
	pkg, err := (&types.Config{Importer: importer.ForCompiler(fset, "source", nil)}).Check("p", fset, []*ast.File{f}, info)
	if err != nil {
		t.Fatal(err)
	}
	out, err := DeriveAllow(fset, []c09.LoadedPackage{{Rel: "p", Name: "p", Files: []*ast.File{f}, Names: []string{"p.go"}, InUse: []bool{true}, Info: info, Pkg: pkg}})
	if err != nil {
		t.Fatal(err)
	}
	t.Log("\n" + out)
	got := map[string][]string{}
	for _, l := range strings.Split(out, "\n") {
		if l == "" {
			continue
		}
		fs := strings.Fields(strings.SplitN(l, "|", 2)[0])
		got[fs[0]] = append(got[fs[0]], strings.Join(fs[2:], " "))
	}
	want := map[string][]string{
		"p.(*rd).okUnsignedCursor": {"r.buf[o]"},
		"p.okFoundOrAppended":      {"s.attr[idx]"},
	}
	for fn, w := range want {
		g := append([]string(nil), got[fn]...)
		sort.Strings(g)
		if strings.Join(g, " ; ") != strings.Join(w, " ; ") {
			t.Errorf("%s: derived %q, want %q", fn, g, w)
		}
	}
	for fn, g := range got {
		if strings.Contains(fn, "bad") {
			t.Errorf("%s: %q must not be derived", fn, g)
		}
	}
}
