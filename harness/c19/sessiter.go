package c19

import (
	"bytes"
	"context"
	"encoding/xml"
	"fmt"
	"strings"
	"time"

	"mellium.im/xmpp"
	"mellium.im/xmpp/blocklist"
	"mellium.im/xmpp/disco"
	"mellium.im/xmpp/disco/items"
	"mellium.im/xmpp/jid"
	"mellium.im/xmpp/pubsub"
	"mellium.im/xmpp/roster"
	"mellium.im/xmpp/stanza"

	"verifharness/common"
)

// The session-bound response iterators (roster.Iter, blocklist.Iter, disco.ItemIter, pubsub.Iter): the
// request is made on a real session over an in-memory connection with Serve running, the reply
// is fed once the request is on the wire, and the iterator is read to the end.  Oracle (clauses
// no-panic, unmarshal-total, roundtrip): every item handed out is the item its element decodes
// to on its own (xml.Unmarshal of that child alone), in order; an element that does not decode
// ends the iteration with an error and is not handed out as a value.
//
// Replay line: `udoc siter <kind> <hex of the reply payload>`.

var sessIterKinds = []string{"roster", "blocklist", "disco", "pubsub"}

type sessItem struct {
	canon string
	ok    bool // decodes on its own
}

// expectedItems decodes every child element of the payload root on its own.
func expectedItems(kind string, payload []byte) (want []sessItem, ok bool) {
	toks, err := common.Tokenize(payload)
	if err != nil || len(toks) < 2 {
		return nil, false
	}
	inner := toks[1 : len(toks)-1]
	if kind == "pubsub" {
		// the items are the children of the <items/> wrapper inside <pubsub/>
		if len(inner) < 2 {
			return nil, false
		}
		if _, isStart := inner[0].(xml.StartElement); !isStart {
			return nil, false
		}
		inner = inner[1 : len(inner)-1]
	}
	for i := 0; i < len(inner); {
		st, isStart := inner[i].(xml.StartElement)
		if !isStart {
			i++
			continue
		}
		end := subtreeEnd(inner, i)
		if end <= i {
			return nil, false
		}
		el := printToks(inner[i:end])
		if (kind == "disco" || kind == "pubsub") && st.Name.Space == rsmNS && st.Name.Local == "set" {
			// these two iterate through paging.Iter, which takes the page description out
			i = end
			continue
		}
		switch kind {
		case "roster":
			var it roster.Item
			pan, err := safeUnmarshal(el, &it)
			want = append(want, sessItem{canonRosterItem(it), pan == "" && err == nil})
		case "disco":
			var it items.Item
			pan, err := safeUnmarshal(el, &it)
			want = append(want, sessItem{(&kv{}).j("jid", it.JID).s("name", it.Name).s("node", it.Node).String(), pan == "" && err == nil})
		case "pubsub":
			// id attribute and the content of the element, unchanged
			id := ""
			for _, a := range st.Attr {
				if a.Name.Local == "id" {
					id = a.Value
					break
				}
			}
			want = append(want, sessItem{id + " " + common.EncToks(canonToks(inner[i+1:end-1])), true})
		case "blocklist":
			// the blocked JID is the jid attribute of the element
			v, has := "", false
			for _, a := range st.Attr {
				if a.Name.Local == "jid" && !has {
					v, has = a.Value, true
				}
			}
			j, err := jid.Parse(v)
			if !has {
				want = append(want, sessItem{"", true})
			} else {
				want = append(want, sessItem{j.String(), err == nil})
			}
		}
		i = end
	}
	return want, true
}

func sessIterDoc(c *ctx, kind string, payload []byte, class string) {
	r := c.r
	caseLine := fmt.Sprintf("udoc siter %s %s", kind, common.Hex(payload))
	r.Mark("case siter")
	r.Line(caseLine, "-")
	lines := []string{r.Prop + " " + caseLine}
	r.Case(caseLine, true, class+"/"+kind+".Iter")
	want, wok := expectedItems(kind, payload)
	if !wok {
		return
	}
	rs, err := common.NewRawSession(0, "jabber:client", jid.MustParse("me@example.net/r"), jid.MustParse("example.net"))
	if err != nil {
		return
	}
	go func() { _ = rs.S.Serve(nil) }()
	from := ""
	if kind == "disco" {
		from = ` from="example.net"`
	}
	reply := []byte(`<iq type="result" id="q1"` + from + `>` + string(payload) + `</iq>`)
	go func() {
		for k := 0; k < 400 && len(rs.Out.Bytes()) == 0; k++ {
			time.Sleep(5 * time.Millisecond)
		}
		_ = rs.Feed(reply)
	}()
	var got []string
	var iterErr error
	p := guard(kind+".Iter", func() ([]byte, []xml.Token, error) {
		ctx, cancel := context.WithTimeout(context.Background(), 3*time.Second)
		defer cancel()
		iq := stanza.IQ{ID: "q1"}
		switch kind {
		case "roster":
			it := roster.FetchIQ(ctx, roster.IQ{IQ: iq}, rs.S)
			for n := 0; it.Next() && n < 1000; n++ {
				got = append(got, canonRosterItem(it.Item()))
			}
			iterErr = it.Err()
			_ = it.Close()
		case "blocklist":
			it := blocklist.FetchIQ(ctx, iq, rs.S)
			for n := 0; it.Next() && n < 1000; n++ {
				got = append(got, it.JID().String())
			}
			iterErr = it.Err()
			_ = it.Close()
		case "pubsub":
			it := pubsub.FetchIQ(ctx, iq, rs.S, pubsub.Query{Node: "n"})
			for n := 0; it.Next() && n < 1000; n++ {
				id, tr := it.Item()
				var toks []xml.Token
				for k := 0; tr != nil && k < 100000; k++ {
					t, err := tr.Token()
					if t != nil {
						toks = append(toks, xml.CopyToken(t))
					}
					if err != nil || t == nil {
						break
					}
				}
				got = append(got, id+" "+common.EncToks(canonToks(toks)))
			}
			iterErr = it.Err()
			_ = it.Close()
		case "disco":
			iq.To = jid.MustParse("example.net")
			it := disco.FetchItemsIQ(ctx, "", iq, rs.S)
			for n := 0; it.Next() && n < 1000; n++ {
				v := it.Item()
				got = append(got, (&kv{}).j("jid", v.JID).s("name", v.Name).s("node", v.Node).String())
			}
			iterErr = it.Err()
			_ = it.Close()
		}
		return nil, nil, nil
	})
	_ = rs.In.Close()
	if p.panicked != "" {
		r.Fail("unmarshal-total", kind+".Iter/"+panicClass(p.panicked), lines, fmt.Sprintf("iterating over the reply %q panicked: %s", payload, p.panicked))
		return
	}
	if iterErr != nil && (strings.Contains(iterErr.Error(), "deadline") || strings.Contains(iterErr.Error(), "context")) {
		r.Hist["siter-no-reply/"+kind]++
		return
	}
	// the expected prefix: items up to the first element that does not decode
	var wantVals []string
	wantErr := false
	for _, w := range want {
		if !w.ok {
			wantErr = true
			break
		}
		wantVals = append(wantVals, w.canon)
	}
	r.Hist[fmt.Sprintf("siter/%s/err=%v", kind, iterErr != nil)]++
	switch {
	case len(got) > len(wantVals) && wantErr:
		r.Fail("unmarshal-total", kind+".Iter/item-handed-out-with-error", lines,
			fmt.Sprintf("the element that does not decode was handed out as an item (%q) before the error %v\nreply %q", got[len(wantVals)], iterErr, payload))
	case strings.Join(got, "\n") != strings.Join(wantVals, "\n"):
		r.Fail("roundtrip", kind+".Iter/items", lines, fmt.Sprintf("items handed out %q\nwant %q\nreply %q", got, wantVals, payload))
	}
	if wantErr != (iterErr != nil) {
		r.Fail("unmarshal-total", fmt.Sprintf("%s.Iter/error-%v-want-%v", kind, iterErr != nil, wantErr), lines,
			fmt.Sprintf("Err() = %v after the reply %q", iterErr, payload))
	}
}

func sessIterReplay(c *ctx, f []string) {
	if len(f) < 5 {
		return
	}
	if doc, err := common.UnHex(f[4]); err == nil {
		sessIterDoc(c, f[3], doc, "replay")
	}
}

func sessIterCases(c *ctx) {
	r := c.r
	r.Mark("case session-iterators")
	rnd := c.rnd.Fork()
	roots := map[string]string{
		"roster":    `<query xmlns="jabber:iq:roster" ver="v1">%s</query>`,
		"blocklist": `<blocklist xmlns="urn:xmpp:blocking">%s</blocklist>`,
		"disco":     `<query xmlns="http://jabber.org/protocol/disco#items">%s</query>`,
		"pubsub":    `<pubsub xmlns="http://jabber.org/protocol/pubsub"><items node="n">%s</items></pubsub>`,
	}
	junk := []string{`text`, `<other xmlns="urn:x"><item jid="x@y"/></other>`, `<item jid="not a@jid@@"/>`, `<item/>`,
		`<item jid="b@example.org" name="n&lt;" node="nd" subscription="both"><group>g</group><group/></item>`,
		`<set xmlns="http://jabber.org/protocol/rsm"><first>a</first><count>1</count></set>`}
	for k := r.Pick(40, 400); k > 0; k-- {
		kind := sessIterKinds[rnd.Intn(len(sessIterKinds))]
		g := &gen{r: common.NewRand(rnd.Uint64())}
		var b bytes.Buffer
		last := ""
		for n := rnd.Intn(5); n > 0; n-- {
			var ch string
			switch {
			case rnd.Intn(3) == 0:
				ch = junk[rnd.Intn(len(junk))]
			case kind == "roster":
				it := roster.Item{JID: g.jid(), Name: g.opt(), Subscription: []string{"", "none", "to", "both"}[g.intn(4)], Group: g.texts(3)}
				if !xmlValid(it.Name) || !allValid(it.Group) {
					continue
				}
				x, _ := xml.Marshal(it)
				ch = string(x)
			case kind == "disco":
				it := items.Item{JID: g.njid(), Name: g.opt(), Node: g.opt()}
				if !xmlValid(it.Name) || !xmlValid(it.Node) {
					continue
				}
				x, _ := xml.Marshal(it)
				ch = string(x)
			case kind == "pubsub":
				t := g.text()
				if !xmlValid(t) {
					continue
				}
				var eb bytes.Buffer
				_ = xml.EscapeText(&eb, []byte(t))
				ch = []string{`<item id="i1"><entry xmlns="urn:x">` + eb.String() + `</entry></item>`, `<item/>`,
					`<item id="i&amp;2"><a xmlns="urn:a"/><b xmlns="urn:b" k="v">` + eb.String() + `</b>tail</item>`}[g.intn(3)]
			default:
				ch = `<item jid="` + g.njid().String() + `"/>`
			}
			if ch == "text" && last == "text" {
				continue
			}
			b.WriteString(ch)
			last = ch
		}
		doc := []byte(fmt.Sprintf(roots[kind], b.String()))
		if _, err := common.Tokenize(doc); err != nil {
			continue
		}
		sessIterDoc(c, kind, doc, "random")
	}
	_ = xmpp.Ready
}

func allValid(l []string) bool {
	for _, s := range l {
		if !xmlValid(s) {
			return false
		}
	}
	return true
}
