package c19

import (
	"encoding/xml"
	"fmt"
	"regexp"
	"sort"
	"strconv"
	"strings"

	"mellium.im/xmpp"
	"mellium.im/xmpp/commands"

	"verifharness/common"
)

// Facts about enum-named elements.
//
// internal/saslerr.Condition writes an element whose *name* is the condition's String():
// inside the stringer table that is an XML name, beyond it the stringer's fallback
// "Condition(12)" is not.  Two regenerated facts make an off-by-one in the writer's guard a
// broken proof obligation:
//
//   - probed (round C; formerly read from the syntax, which broke on a guard rewritten as a
//     switch): the stringer table (String() of 0, 1, … up to its fallback) and the half-open
//     interval [lo, hi) of values for which Condition.TokenReader writes an element;
//   - obtained by running the real writers on their whole finite domain (all 65536
//     conditions through the export hook, all 256 commands.Actions): every element name
//     that is ever written.

type enumTable struct {
	names  []string
	lo, hi int
	ok     bool
	why    string
}

// saslTable is a *probe* fact: the stringer table and the writer's guard of internal/saslerr
// are observed by running the real code over its whole finite domain (through the tag-guarded
// export hook), not read from its syntax — a guard written as a switch, with its halves
// swapped, or in a helper gives the same table; a guard that lets another value through gives
// another one.
//
//	names: Condition(n).String() for n = 0, 1, … up to the first value the stringer does not
//	       know (its fallback has the form "Condition(n)")
//	[lo, hi): the set of the 65536 values for which TokenReader writes an element, which must
//	       be one interval
func saslTable(string) (t enumTable) {
	fallback := regexp.MustCompile(`^Condition\(-?[0-9]+\)$`)
	for n := 0; n < 4096; n++ {
		name := xmpp.VerifSASLConditionName(uint16(n))
		if fallback.MatchString(name) {
			break
		}
		t.names = append(t.names, name)
	}
	if len(t.names) < 2 {
		t.why = "the stringer knows fewer than two conditions"
		return
	}
	lo, hi, count := -1, -1, 0
	for n := 0; n < 65536; n++ {
		names := map[string]bool{}
		wrote := writesElement(xmpp.VerifSASLCondition(uint16(n)).TokenReader(), names)
		if !wrote {
			continue
		}
		if lo == -1 {
			lo = n
		}
		hi = n + 1
		count++
	}
	if lo == -1 {
		t.why = "no condition is written as an element"
		return
	}
	if hi-lo != count {
		t.why = fmt.Sprintf("the written conditions are not an interval: %d values in [%d, %d)", count, lo, hi)
		return
	}
	t.lo, t.hi, t.ok = lo, hi, true
	return
}

// writesElement runs a writer (a panic counts as "writes": the fact must not hide it).
func writesElement(tr xml.TokenReader, into map[string]bool) (wrote bool) {
	defer func() {
		if recover() != nil {
			wrote = true
		}
	}()
	toks, _ := common.ReadAllTokens(tr)
	for _, t := range toks {
		if s, ok := t.(xml.StartElement); ok {
			into[s.Name.Local] = true
			wrote = true
		}
	}
	return wrote
}

func elementNames(tr xml.TokenReader, into map[string]bool) {
	defer func() { _ = recover() }()
	toks, _ := common.ReadAllTokens(tr)
	for _, t := range toks {
		if s, ok := t.(xml.StartElement); ok {
			into[s.Name.Local] = true
		}
	}
}

func sortedKeys(m map[string]bool) []string {
	var l []string
	for k := range m {
		l = append(l, k)
	}
	sort.Strings(l)
	return l
}

func leanStrings(l []string) string {
	q := make([]string, len(l))
	for i, s := range l {
		q[i] = strconv.Quote(s)
	}
	return "[" + strings.Join(q, ", ") + "]"
}

// enumFacts renders the enum part of Generated/C19.lean.
func enumFacts(repo string) string {
	var b strings.Builder
	t := saslTable(repo)
	b.WriteString("/-- internal/saslerr: the stringer table and the interval [lo, hi) of conditions for which\n`Condition.TokenReader` writes an element, read from the source -/\n")
	if t.ok {
		fmt.Fprintf(&b, "def saslCondTable : Option XmppModel.Payloads.EnumTable := some ⟨%s, %d, %d⟩\n\n", leanStrings(t.names), t.lo, t.hi)
	} else {
		fmt.Fprintf(&b, "-- not found: %s\ndef saslCondTable : Option XmppModel.Payloads.EnumTable := none\n\n", t.why)
	}
	sasl := map[string]bool{}
	for n := 0; n < 65536; n++ {
		elementNames(xmpp.VerifSASLCondition(uint16(n)).TokenReader(), sasl)
	}
	act := map[string]bool{}
	for a := 0; a < 256; a++ {
		elementNames(commands.Actions(a).TokenReader(), act)
	}
	fmt.Fprintf(&b, "/-- every element name `saslerr.Condition.TokenReader` writes, over all 65536 values (real code) -/\ndef saslCondEmitted : List String := %s\n\n", leanStrings(sortedKeys(sasl)))
	fmt.Fprintf(&b, "/-- every element name `commands.Actions.TokenReader` writes, over all 256 values (real code) -/\ndef actionsEmitted : List String := %s\n\n", leanStrings(sortedKeys(act)))
	return b.String()
}

// tableV renders the table for the `enc/dec sasl` lines.
func (t enumTable) v() string {
	return vl(vlist(vas(t.names)), va(strconv.Itoa(t.lo)), va(strconv.Itoa(t.hi)))
}
