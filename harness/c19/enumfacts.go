package c19

import (
	"encoding/xml"
	"fmt"
	"go/ast"
	"go/parser"
	"go/token"
	"path/filepath"
	"sort"
	"strconv"
	"strings"

	"mellium.im/xmpp"
	"mellium.im/xmpp/commands"

	"verifharness/common"
)

// Facts about enum-named elements.
//
// internal/saslerr.Condition writes an element whose *name* is the condition's String():
// inside the stringer table that is an XML name, beyond it the stringer's fallback
// "Condition(12)" is not.  Two regenerated facts make an off-by-one in the writer's guard a
// broken proof obligation:
//
//   - read from the source (go/ast): the stringer table (_Condition_name cut at
//     _Condition_index) and the guard of Condition.TokenReader, as the half-open interval
//     [lo, hi) of values for which an element is written;
//   - obtained by running the real writers on their whole finite domain (all 65536
//     conditions through the export hook, all 256 commands.Actions): every element name
//     that is ever written.

type enumTable struct {
	names  []string
	lo, hi int
	ok     bool
	why    string
}

// constInt evaluates the small integer expressions of the guard: literals, len(<index table>),
// + and -, and conversions such as Condition(x) / int(x).
func constInt(e ast.Expr, lenIdx int) (int, bool) {
	switch t := e.(type) {
	case *ast.ParenExpr:
		return constInt(t.X, lenIdx)
	case *ast.BasicLit:
		if t.Kind == token.INT {
			v, err := strconv.Atoi(t.Value)
			return v, err == nil
		}
	case *ast.BinaryExpr:
		a, ok1 := constInt(t.X, lenIdx)
		b, ok2 := constInt(t.Y, lenIdx)
		if ok1 && ok2 {
			switch t.Op {
			case token.ADD:
				return a + b, true
			case token.SUB:
				return a - b, true
			}
		}
	case *ast.CallExpr:
		if id, ok := t.Fun.(*ast.Ident); ok && len(t.Args) == 1 {
			if id.Name == "len" {
				if a, ok := t.Args[0].(*ast.Ident); ok && a.Name == "_Condition_index" {
					return lenIdx, true
				}
				return 0, false
			}
			// a conversion
			return constInt(t.Args[0], lenIdx)
		}
	}
	return 0, false
}

func isCondVar(e ast.Expr, name string) bool {
	switch t := e.(type) {
	case *ast.Ident:
		return t.Name == name
	case *ast.ParenExpr:
		return isCondVar(t.X, name)
	case *ast.CallExpr: // int(c), uint(c), …
		if _, ok := t.Fun.(*ast.Ident); ok && len(t.Args) == 1 {
			return isCondVar(t.Args[0], name)
		}
	}
	return false
}

// saslTable reads the stringer table and the writer's guard of internal/saslerr.
func saslTable(repo string) (t enumTable) {
	fset := token.NewFileSet()
	dir := filepath.Join(repo, "internal", "saslerr")
	sf, err := parser.ParseFile(fset, filepath.Join(dir, "condition_string.go"), nil, 0)
	if err != nil {
		t.why = err.Error()
		return
	}
	var nameStr string
	var idx []int
	ast.Inspect(sf, func(n ast.Node) bool {
		vs, ok := n.(*ast.ValueSpec)
		if !ok {
			return true
		}
		for i, id := range vs.Names {
			if i >= len(vs.Values) {
				continue
			}
			switch id.Name {
			case "_Condition_name":
				if bl, ok := vs.Values[i].(*ast.BasicLit); ok {
					nameStr, _ = strconv.Unquote(bl.Value)
				}
			case "_Condition_index":
				if cl, ok := vs.Values[i].(*ast.CompositeLit); ok {
					for _, e := range cl.Elts {
						if v, ok := constInt(e, 0); ok {
							idx = append(idx, v)
						}
					}
				}
			}
		}
		return true
	})
	if nameStr == "" || len(idx) < 2 {
		t.why = "stringer table not found"
		return
	}
	for i := 0; i+1 < len(idx); i++ {
		if idx[i] > idx[i+1] || idx[i+1] > len(nameStr) {
			t.why = "stringer index table is not monotone"
			return
		}
		t.names = append(t.names, nameStr[idx[i]:idx[i+1]])
	}
	ef, err := parser.ParseFile(fset, filepath.Join(dir, "errors.go"), nil, 0)
	if err != nil {
		t.why = err.Error()
		return
	}
	for _, d := range ef.Decls {
		fd, ok := d.(*ast.FuncDecl)
		if !ok || fd.Name.Name != "TokenReader" || recvName(fd) != "Condition" || fd.Body == nil || len(fd.Body.List) < 2 {
			continue
		}
		recv := ""
		if len(fd.Recv.List[0].Names) == 1 {
			recv = fd.Recv.List[0].Names[0].Name
		}
		ifs, ok := fd.Body.List[0].(*ast.IfStmt)
		if !ok || ifs.Else != nil || ifs.Init != nil {
			t.why = "Condition.TokenReader does not start with the guard"
			return
		}
		or, ok := ifs.Cond.(*ast.BinaryExpr)
		if !ok || or.Op != token.LOR {
			t.why = "guard is not `none || out of range`"
			return
		}
		// left: c == ConditionNone (the zero value)
		l, ok := or.X.(*ast.BinaryExpr)
		if !ok || l.Op != token.EQL || !isCondVar(l.X, recv) {
			t.why = "left half of the guard is not `c == ConditionNone`"
			return
		}
		if id, ok := l.Y.(*ast.Ident); !ok || id.Name != "ConditionNone" {
			t.why = "left half of the guard does not compare with ConditionNone"
			return
		}
		// right: c >= K  or  c > K
		rr, ok := or.Y.(*ast.BinaryExpr)
		if !ok || !isCondVar(rr.X, recv) {
			t.why = "right half of the guard is not a comparison of the condition"
			return
		}
		k, ok := constInt(rr.Y, len(idx))
		if !ok {
			t.why = "upper bound of the guard is not a constant expression over len(_Condition_index)"
			return
		}
		switch rr.Op {
		case token.GEQ:
			t.hi = k
		case token.GTR:
			t.hi = k + 1
		default:
			t.why = "unexpected comparison in the guard"
			return
		}
		// the guarded branch writes no element
		if len(ifs.Body.List) != 1 {
			t.why = "guarded branch is not a single return"
			return
		}
		t.lo, t.ok = 1, true
		return
	}
	t.why = "Condition.TokenReader not found"
	return
}

func elementNames(tr xml.TokenReader, into map[string]bool) {
	defer func() { _ = recover() }()
	toks, _ := common.ReadAllTokens(tr)
	for _, t := range toks {
		if s, ok := t.(xml.StartElement); ok {
			into[s.Name.Local] = true
		}
	}
}

func sortedKeys(m map[string]bool) []string {
	var l []string
	for k := range m {
		l = append(l, k)
	}
	sort.Strings(l)
	return l
}

func leanStrings(l []string) string {
	q := make([]string, len(l))
	for i, s := range l {
		q[i] = strconv.Quote(s)
	}
	return "[" + strings.Join(q, ", ") + "]"
}

// enumFacts renders the enum part of Generated/C19.lean.
func enumFacts(repo string) string {
	var b strings.Builder
	t := saslTable(repo)
	b.WriteString("/-- internal/saslerr: the stringer table and the interval [lo, hi) of conditions for which\n`Condition.TokenReader` writes an element, read from the source -/\n")
	if t.ok {
		fmt.Fprintf(&b, "def saslCondTable : Option XmppModel.Payloads.EnumTable := some ⟨%s, %d, %d⟩\n\n", leanStrings(t.names), t.lo, t.hi)
	} else {
		fmt.Fprintf(&b, "-- not found: %s\ndef saslCondTable : Option XmppModel.Payloads.EnumTable := none\n\n", t.why)
	}
	sasl := map[string]bool{}
	for n := 0; n < 65536; n++ {
		elementNames(xmpp.VerifSASLCondition(uint16(n)).TokenReader(), sasl)
	}
	act := map[string]bool{}
	for a := 0; a < 256; a++ {
		elementNames(commands.Actions(a).TokenReader(), act)
	}
	fmt.Fprintf(&b, "/-- every element name `saslerr.Condition.TokenReader` writes, over all 65536 values (real code) -/\ndef saslCondEmitted : List String := %s\n\n", leanStrings(sortedKeys(sasl)))
	fmt.Fprintf(&b, "/-- every element name `commands.Actions.TokenReader` writes, over all 256 values (real code) -/\ndef actionsEmitted : List String := %s\n\n", leanStrings(sortedKeys(act)))
	return b.String()
}

// tableV renders the table for the `enc/dec sasl` lines.
func (t enumTable) v() string {
	return vl(vlist(vas(t.names)), va(strconv.Itoa(t.lo)), va(strconv.Itoa(t.hi)))
}
