package c19

import (
	"crypto/sha256"
	"encoding/binary"
	"encoding/hex"
	"encoding/xml"
	"fmt"
	"strconv"
	"strings"

	"mellium.im/xmpp/form"
	"mellium.im/xmpp/jid"

	"verifharness/common"
)

// Data forms (layer 2 + 3).  A form is generated as a description, built
// through the exported constructors only, and driven through
// TokenReader/MarshalXML/UnmarshalXML/Set/Get/Submit.
//
// Protocol lines (see lean/XmppModel/Driver/C19.lean; every string hex, a list
// is the concatenation of "."+element, an outer list of ","+element):
//
//	fenc <jidtab> <form>              -> <toks>         tokens a decoder sees for the form
//	fdec <toks>                       -> <form> | ERR   the decoded form
//	fsub <jidtab> <form> <ops>        -> <setres> <ok> <toks>
//	fget <jidtab> <form> <ops> <id>   -> <val> <ok>
//
// form   := title "/" instructions "/" type "/" fields      fields := list of field
// field  := type~var~label~desc~required~values~options      option := label "=" value
// jidtab := list of s ">" ( normal-form | "!" )              (the jid.Parse oracle)
// ops    := list of id "=" kind ":" payload                  kind s,l,b,j,J

type fieldDesc struct {
	typ, varName, label, desc string
	values                    []string
	opts                      [][2]string
	required                  bool
}

type formDesc struct {
	title, instr, typ string
	fields            []fieldDesc
}

var fieldTypes = []string{"boolean", "fixed", "hidden", "jid-multi", "jid-single", "list-multi", "list-single", "text-multi", "text-private", "text-single"}

func isMulti(t string) bool {
	return t == "list-multi" || t == "jid-multi" || t == "text-multi" || t == "hidden"
}
func isList(t string) bool  { return t == "list-single" || t == "list-multi" }

var jidTexts = []string{"a@example.net", "example.net", "not a jid@", "@", "A@EXAMPLE.NET/R", "a@example.net/r s", "", "x@y/z\n", "ß@example.net"}

func genFieldValue(g *gen, typ string) string {
	switch typ {
	case "boolean":
		return []string{"true", "false", "0", "1", "yes", "", "TRUE"}[g.intn(7)]
	case "jid-single", "jid-multi":
		return jidTexts[g.intn(len(jidTexts))]
	}
	return g.text()
}

func genFormDesc(g *gen, dupVars bool) formDesc {
	fd := formDesc{title: g.opt(), instr: g.opt(), typ: []string{"form", "form", "result"}[g.intn(3)]}
	if g.chance(1, 12) {
		fd.typ = "cancel"
		return fd
	}
	n := g.count(6)
	for i := 0; i < n; i++ {
		f := fieldDesc{typ: fieldTypes[g.intn(len(fieldTypes))], label: g.opt(), desc: g.opt(), required: g.chance(1, 3)}
		if f.typ != "fixed" {
			f.varName = fmt.Sprintf("v%d", i)
			if g.chance(1, 6) {
				f.varName += g.ntext()
			}
			if dupVars && i > 0 && g.chance(1, 3) {
				f.varName = fd.fields[g.intn(i)].varName
			}
		}
		for k := g.count(3); k > 0; k-- {
			f.values = append(f.values, genFieldValue(g, f.typ))
		}
		if isList(f.typ) || g.chance(1, 8) {
			for k := g.count(3); k > 0; k-- {
				f.opts = append(f.opts, [2]string{g.opt(), g.text()})
			}
		}
		fd.fields = append(fd.fields, f)
	}
	return fd
}

func (fd formDesc) build() *form.Data {
	if fd.typ == "cancel" {
		return form.Cancel(fd.title, fd.instr)
	}
	var fs []form.Field
	if fd.title != "" {
		fs = append(fs, form.Title(fd.title))
	}
	if fd.instr != "" {
		fs = append(fs, form.Instructions(fd.instr))
	}
	if fd.typ == "result" {
		fs = append(fs, form.Result)
	}
	for _, f := range fd.fields {
		var o []form.Option
		if f.required {
			o = append(o, form.Required)
		}
		if f.desc != "" {
			o = append(o, form.Desc(f.desc))
		}
		if f.label != "" {
			o = append(o, form.Label(f.label))
		}
		for _, v := range f.values {
			o = append(o, form.Value(v))
		}
		for _, op := range f.opts {
			o = append(o, form.ListItem(op[0], op[1]))
		}
		switch f.typ {
		case "boolean":
			fs = append(fs, form.Boolean(f.varName, o...))
		case "fixed":
			fs = append(fs, form.Fixed(o...))
		case "hidden":
			fs = append(fs, form.Hidden(f.varName, o...))
		case "jid-multi":
			fs = append(fs, form.JIDMulti(f.varName, o...))
		case "jid-single":
			fs = append(fs, form.JID(f.varName, o...))
		case "list-multi":
			fs = append(fs, form.ListMulti(f.varName, o...))
		case "list-single":
			fs = append(fs, form.List(f.varName, o...))
		case "text-multi":
			fs = append(fs, form.TextMulti(f.varName, o...))
		case "text-private":
			fs = append(fs, form.TextPrivate(f.varName, o...))
		default:
			fs = append(fs, form.Text(f.varName, o...))
		}
	}
	return form.New(fs...)
}

// ---- the harness' own statement of the documented normal form -----------------------

func jidNorm(s string) (string, bool) {
	j, err := jid.Parse(s)
	if err != nil {
		return "", false
	}
	return j.String(), true
}

// wireValues is what a field of the given type carries on the wire for the
// given raw values (XEP-0004: empty values are not sent, single-valued types
// carry one value, booleans and JIDs only valid lexical forms).
func wireValues(typ string, values []string) []string {
	var out []string
	for _, v := range values {
		if v == "" {
			continue
		}
		if len(out) > 0 && !isMulti(typ) {
			break
		}
		switch typ {
		case "boolean":
			if v != "true" && v != "false" && v != "0" && v != "1" {
				continue
			}
		case "jid-single", "jid-multi":
			if _, ok := jidNorm(v); !ok {
				continue
			}
		}
		out = append(out, v)
	}
	return out
}

func normTitle(s string) string {
	return strings.NewReplacer("\r\n", " ", "\n\r", " ", "\n", " ", "\r", " ").Replace(s)
}

func normInstr(s string) string {
	var lines []string
	for _, l := range strings.FieldsFunc(s, func(r rune) bool { return r == '\n' || r == '\r' }) {
		lines = append(lines, l)
	}
	return strings.Join(lines, "\n")
}

// normal is the form a decoder must see for a non-submit form.
func (fd formDesc) normal() formDesc {
	n := formDesc{title: normTitle(fd.title), instr: normInstr(fd.instr), typ: fd.typ}
	for _, f := range fd.fields {
		g := f
		g.values = wireValues(f.typ, f.values)
		if !isList(f.typ) {
			g.opts = nil
		}
		n.fields = append(n.fields, g)
	}
	return n
}

// ---- line encoding ---------------------------------------------------------------------------

func hx(s string) string { return hex.EncodeToString([]byte(s)) }

func encList(l []string) string { return encListSep(l, ".") }

// encOuter encodes a list whose elements contain inner lists.
func encOuter(l []string) string { return encListSep(l, ",") }

func encListSep(l []string, sep string) string {
	var sb strings.Builder
	for _, s := range l {
		sb.WriteString(sep)
		sb.WriteString(s)
	}
	return sb.String()
}

func hxs(l []string) []string {
	o := make([]string, len(l))
	for i, s := range l {
		o[i] = hx(s)
	}
	return o
}

func (f fieldDesc) enc() string {
	var opts []string
	for _, o := range f.opts {
		opts = append(opts, hx(o[0])+"="+hx(o[1]))
	}
	return strings.Join([]string{hx(f.typ), hx(f.varName), hx(f.label), hx(f.desc), common.B(f.required), encList(hxs(f.values)), encList(opts)}, "~")
}

func (fd formDesc) enc() string {
	var fs []string
	for _, f := range fd.fields {
		fs = append(fs, f.enc())
	}
	return hx(fd.title) + "/" + hx(fd.instr) + "/" + hx(fd.typ) + "/" + encOuter(fs)
}

func (fd formDesc) jidTab(extra ...string) string {
	seen := map[string]bool{}
	var l []string
	add := func(s string) {
		if seen[s] {
			return
		}
		seen[s] = true
		if n, ok := jidNorm(s); ok {
			l = append(l, hx(s)+">"+hx(n))
			if !seen[n] {
				// the table is closed under normalisation (a normal form is re-parsed on submit)
				seen[n] = true
				if n2, ok2 := jidNorm(n); ok2 {
					l = append(l, hx(n)+">"+hx(n2))
				} else {
					l = append(l, hx(n)+">!")
				}
			}
		} else {
			l = append(l, hx(s)+">!")
		}
	}
	for _, f := range fd.fields {
		for _, v := range f.values {
			add(v)
		}
	}
	for _, s := range extra {
		add(s)
	}
	if len(l) == 0 {
		return "-"
	}
	return encOuter(l)
}

// descOf reads a real form back into a description through the exported
// accessors only; ok is false when options cannot be attributed (duplicate
// variable names among list fields).
func descOf(d *form.Data) (fd formDesc, ok bool) {
	ok = true
	fd.title, fd.instr = d.Title(), d.Instructions()
	// the form type has no accessor: it is read off the first token the form writes
	func() {
		defer func() {
			if p := recover(); p != nil {
				fd.typ = "PANIC"
			}
		}()
		first, err := d.TokenReader().Token()
		if s, isStart := first.(xml.StartElement); isStart && (err == nil || err.Error() == "EOF") {
			for _, a := range s.Attr {
				if a.Name.Local == "type" {
					fd.typ = a.Value
				}
			}
		}
	}()
	seen := map[string]int{}
	listVar := map[string]bool{}
	d.ForFields(func(f form.FieldData) {
		seen[f.Var]++
		if isList(string(f.Type)) {
			listVar[f.Var] = true
		}
	})
	d.ForFields(func(f form.FieldData) {
		g := fieldDesc{typ: string(f.Type), varName: f.Var, label: f.Label, desc: f.Desc, required: f.Required, values: append([]string(nil), f.Raw...)}
		if opts, found := d.GetOptions(f.Var); found {
			// GetOptions answers for the first field of that name only
			if seen[f.Var] > 1 && (listVar[f.Var] || len(opts) > 0) {
				ok = false
			}
			for _, o := range opts {
				g.opts = append(g.opts, [2]string{o.Label, o.Value})
			}
		}
		fd.fields = append(fd.fields, g)
	})
	return fd, ok
}

func canonForm(d *form.Data) string {
	fd, _ := descOf(d)
	return fd.enc()
}

// ---- Set / Get / Submit ------------------------------------------------------------------------

type setOp struct {
	id   string
	kind byte // s l b j J
	s    string
	l    []string
	b    bool
}

func (o setOp) value() interface{} {
	switch o.kind {
	case 's':
		return o.s
	case 'l':
		return append([]string(nil), o.l...)
	case 'b':
		return o.b
	case 'j':
		if o.s == "" {
			return jid.JID{}
		}
		return jid.MustParse(o.s)
	}
	var js []jid.JID
	for _, s := range o.l {
		if s == "" {
			js = append(js, jid.JID{})
		} else {
			js = append(js, jid.MustParse(s))
		}
	}
	return js
}

func (o setOp) enc() string {
	p := ""
	switch o.kind {
	case 's', 'j':
		p = hx(o.s)
	case 'b':
		p = common.B(o.b)
	default:
		p = encList(hxs(o.l))
	}
	return hx(o.id) + "=" + string(o.kind) + ":" + p
}

func encOps(ops []setOp) string {
	if len(ops) == 0 {
		return "-"
	}
	var l []string
	for _, o := range ops {
		l = append(l, o.enc())
	}
	return encOuter(l)
}

var validJIDs = []string{"a@example.net", "example.net", "room@conference.example.net/nick", "", "user@example.net/r<&>"}

func genOps(g *gen, fd formDesc) []setOp {
	var ops []setOp
	n := g.count(5)
	for i := 0; i < n; i++ {
		var o setOp
		typ := ""
		if len(fd.fields) > 0 && !g.chance(1, 8) {
			f := fd.fields[g.intn(len(fd.fields))]
			o.id, typ = f.varName, f.typ
		} else {
			o.id = "unknown" + g.opt()
		}
		kinds := "slbjJ"
		k := kinds[g.intn(5)]
		if !g.chance(1, 5) {
			// mostly the kind the field expects
			switch typ {
			case "boolean":
				k = 'b'
			case "jid-single":
				k = 'j'
			case "jid-multi":
				k = 'J'
			case "list-multi":
				k = 'l'
			case "":
			default:
				k = 's'
			}
		}
		o.kind = k
		switch k {
		case 's':
			o.s = g.text()
		case 'b':
			o.b = g.boolean()
		case 'j':
			o.s = canonJID(validJIDs[g.intn(len(validJIDs))])
		case 'l':
			o.l = g.texts(3)
		case 'J':
			for m := g.count(3); m > 0; m-- {
				o.l = append(o.l, canonJID(validJIDs[g.intn(len(validJIDs))]))
			}
		}
		ops = append(ops, o)
	}
	return ops
}

func canonJID(s string) string {
	if s == "" {
		return ""
	}
	return jid.MustParse(s).String()
}

func encVal(v interface{}) string {
	switch t := v.(type) {
	case nil:
		return "nil"
	case string:
		return "s:" + hx(t)
	case []string:
		return "l:" + encList(hxs(t))
	case bool:
		return "b:" + common.B(t)
	case jid.JID:
		return "j:" + hx(t.String())
	case []jid.JID:
		var l []string
		for _, j := range t {
			l = append(l, hx(j.String()))
		}
		return "J:" + encList(l)
	}
	return "?" + fmt.Sprintf("%T", v)
}

// expectedSubmitValues is what a successfully set value must put on the wire.
func expectedSubmitValues(typ string, o setOp) []string {
	var raw []string
	switch o.kind {
	case 's':
		if typ == "text-multi" {
			raw = strings.FieldsFunc(o.s, func(r rune) bool { return r == '\n' || r == '\r' })
		} else {
			raw = []string{o.s}
		}
	case 'l', 'J':
		raw = o.l
	case 'b':
		raw = []string{strconv.FormatBool(o.b)}
	case 'j':
		raw = []string{o.s}
	}
	return wireValues(typ, raw)
}

// expectedSet is the documented outcome of Set(id, v): an error for a fixed field
// or a value whose type does not fit the field, otherwise whether the field exists.
func expectedSet(fd formDesc, o setOp) string {
	typ, found := "", false
	for _, f := range fd.fields {
		if f.varName == o.id {
			typ, found = f.typ, true
			break
		}
	}
	want := map[string]byte{"boolean": 'b', "text-single": 's', "text-private": 's', "hidden": 's', "list-single": 's', "text-multi": 's',
		"jid-single": 'j', "jid-multi": 'J', "list-multi": 'l'}
	if typ == "fixed" {
		return "E"
	}
	if k, ok := want[typ]; ok && k != o.kind {
		return "E"
	}
	return common.B(found)
}

// expectedDefault is what Get returns for a field that was never Set.
func expectedDefault(f fieldDesc) (string, bool) {
	switch f.typ {
	case "fixed":
		return encVal(""), false
	case "boolean":
		for _, v := range f.values {
			if v == "false" || v == "0" {
				return encVal(false), true
			}
			if v == "true" || v == "1" {
				return encVal(true), true
			}
		}
		return encVal(false), false
	case "text-single", "text-private", "hidden", "list-single":
		if len(f.values) == 0 {
			return encVal(""), false
		}
		return encVal(f.values[0]), true
	case "jid-single":
		for _, v := range f.values {
			if n, ok := jidNorm(v); ok {
				return "j:" + hx(n), true
			}
		}
		return "j:", false
	case "jid-multi":
		var l []string
		for _, v := range f.values {
			if n, ok := jidNorm(v); ok {
				l = append(l, hx(n))
			}
		}
		return "J:" + encList(l), len(l) > 0
	case "text-multi":
		return encVal(strings.Join(f.values, "\n")), len(f.values) > 0
	case "list-multi":
		return encVal(append([]string(nil), f.values...)), len(f.values) > 0
	}
	return "nil", false
}

type formRun struct {
	c    *ctx
	fd   formDesc
	line string
}

// formCase runs one generated form through every path and the oracle.
func formCase(c *ctx, sub uint64, bad bool, class string) {
	g := &gen{r: common.NewRand(sub), bad: bad}
	dup := g.chance(1, 6)
	fd := genFormDesc(g, dup)
	ops := genOps(g, fd)
	formEval(c, fmt.Sprintf("val form.Data %d %s", sub, common.B(bad)), fd, ops, dup, bad, class)
}

// formEnum evaluates the form and the Set operations the generators build from a script.
func formEnum(c *ctx, script []int) []int {
	g := &gen{enum: true, script: script}
	fd := genFormDesc(g, false)
	ops := genOps(g, fd)
	formEval(c, fmt.Sprintf("val form.Data %s 3", scriptString(script)), fd, ops, false, false, "exhaustive")
	return g.radices
}

// formEval drives one form (description + Set operations) through every path.
func formEval(c *ctx, vline string, fd formDesc, ops []setOp, dup, bad bool, class string) {
	formEvalOn(c, vline, fd, ops, dup, bad, class, nil)
}

// formDecoded: a form an unmarshaller returned is a value of the type like any other (second
// generation): it is described through the exported accessors and driven through the same
// paths, Set / Get / Submit and the model lines as a form built by the constructors.
func formDecoded(c *ctx, b []byte, lines []string) {
	var d form.Data
	if pan, err := safeUnmarshal(b, &d); pan != "" || err != nil {
		return
	}
	var fd formDesc
	attributable := false
	if p := guard("describe", func() ([]byte, []xml.Token, error) { fd, attributable = descOf(&d); return nil, nil, nil }); p.panicked != "" {
		c.r.Fail("no-panic", "form.Data/accessors/"+panicClass(p.panicked), lines, "the accessors of a decoded form panicked: "+p.panicked)
		return
	}
	seen := map[string]bool{}
	dup := !attributable || fd.typ == "submit" || fd.typ == "PANIC"
	for _, f := range fd.fields {
		if f.typ != "fixed" && seen[f.varName] {
			dup = true
		}
		seen[f.varName] = true
		known := false
		for _, t := range fieldTypes {
			known = known || t == f.typ
		}
		if !known {
			dup = true // a field type the model does not describe: oracle only
		}
	}
	h := sha256.Sum256(b)
	g := &gen{r: common.NewRand(binary.LittleEndian.Uint64(h[:8]))}
	ops := genOps(g, fd)
	formEvalOn(c, strings.TrimPrefix(lines[0], c.r.Prop+" "), fd, ops, dup, false, "decoded", &d)
}

func formEvalOn(c *ctx, vline string, fd formDesc, ops []setOp, dup, bad bool, class string, pre *form.Data) {
	r := c.r
	lines := []string{r.Prop + " " + vline}
	if pre == nil {
		r.Line(vline, "-")
		r.Case(vline, true, class+"/form.Data")
	}

	repr := xmlValid(fd.title) && xmlValid(fd.instr)
	for _, f := range fd.fields {
		for _, s := range append(append([]string{f.varName, f.label, f.desc}, f.values...), flat(f.opts)...) {
			repr = repr && xmlValid(s)
		}
	}
	for _, o := range ops {
		repr = repr && xmlValid(o.id) && xmlValid(o.s)
		for _, s := range o.l {
			repr = repr && xmlValid(s)
		}
	}

	var d *form.Data
	if pre != nil {
		d = pre
	} else if p := guard("build", func() ([]byte, []xml.Token, error) { d = fd.build(); return nil, nil, nil }); p.panicked != "" {
		r.Fail("no-panic", "form.Data/construct/"+panicClass(p.panicked), lines, "form.New panicked: "+p.panicked)
		return
	}
	jt := fd.jidTab()
	before, _ := descOf(d)

	// --- writer paths on the form as built
	ps := []pathRes{
		guard("MarshalPtr", func() ([]byte, []xml.Token, error) { b, err := xml.Marshal(d); return b, nil, err }),
		guard("TokenReader", func() ([]byte, []xml.Token, error) { return encodeTokens(d.TokenReader()) }),
		guard("WriteXML", func() ([]byte, []xml.Token, error) {
			var buf strings.Builder
			e := xml.NewEncoder(&buf)
			if _, err := d.WriteXML(e); err != nil {
				return nil, nil, err
			}
			if err := e.Flush(); err != nil {
				return nil, nil, err
			}
			return []byte(buf.String()), nil, nil
		}),
	}
	describe := func() string {
		s := "form: " + fd.enc()
		for _, p := range ps {
			s += fmt.Sprintf("\n%s: %q err=%v panic=%q", p.name, p.out, p.err, p.panicked)
		}
		return s
	}
	want := fd.normal().enc()
	first := ""
	for _, p := range ps {
		switch {
		case p.panicked != "":
			r.Fail("no-panic", "form.Data/"+p.name+"/"+panicClass(p.panicked), lines, "panic: "+p.panicked+"\n"+describe())
			continue
		case p.err != nil:
			if repr {
				r.Fail("marshal-error", "form.Data/"+p.name, lines, p.err.Error()+"\n"+describe())
			}
			continue
		}
		if p.toks != nil {
			bl := "bal " + common.EncToks(p.toks)
			if repr {
				r.Line(bl, common.B(balancedToks(p.toks)))
				c.skelLine("form.Data.TokenReader", p.toks)
				r.Line("wf "+common.EncToks(p.toks), common.B(wellFormed(p.out) == nil))
			}
			if !balancedToks(p.toks) {
				r.Fail("well-formed", "form.Data/TokenReader/unbalanced", append(lines, r.Prop+" "+bl), describe())
			}
		}
		if err := wellFormed(p.out); err != nil {
			r.Fail("well-formed", "form.Data/"+p.name, lines, err.Error()+"\n"+describe())
			continue
		}
		if !repr {
			continue
		}
		toks, err := reparse(p.out)
		if err == nil && !dup {
			// layer 2: the model's encoder must print what a decoder sees
			r.Line("fenc "+jt+" "+fd.enc(), common.EncToks(canonOrder(toks)))
		}
		var back form.Data
		pan, derr := safeUnmarshal(p.out, &back)
		switch {
		case pan != "":
			r.Fail("unmarshal-total", "form.Data/own-output/"+panicClass(pan), lines, pan+"\n"+describe())
			continue
		case derr != nil:
			r.Fail("roundtrip", "form.Data/decode-error/"+errClass(derr), lines, derr.Error()+"\n"+describe())
			continue
		}
		bd, attributable := descOf(&back)
		got := bd.enc()
		if attributable && err == nil {
			r.Line("fdec "+common.EncToks(toks), got)
		}
		if first == "" {
			first = got
		} else if got != first {
			r.Fail("same-value", "form.Data/MarshalPtr-vs-"+p.name, lines, "decoded values differ\n"+first+"\n"+got+"\n"+describe())
		}
		if attributable && !dup && got != want {
			r.Fail("roundtrip", "form.Data/"+formDiff(fd.normal(), bd), lines, "decoded "+got+"\nwant    "+want+"\n"+describe())
		}
	}

	// --- Set / Get / Submit
	setRes := make([]string, len(ops))
	lastSet := map[string]setOp{}
	for i, o := range ops {
		var ok bool
		var err error
		p := guard("Set", func() ([]byte, []xml.Token, error) { ok, err = d.Set(o.id, o.value()); return nil, nil, nil })
		switch {
		case p.panicked != "":
			setRes[i] = "P"
			r.Fail("no-panic", "form.Data/Set/"+panicClass(p.panicked), lines, "Set panicked: "+p.panicked+"\n"+describe())
		case err != nil:
			setRes[i] = "E"
		default:
			setRes[i] = common.B(ok)
			lastSet[o.id] = o
		}
		if want := expectedSet(fd, o); !dup && setRes[i] != "P" && setRes[i] != want {
			r.Fail("set-typed", "form.Data/Set/"+want+"-got-"+setRes[i], lines,
				fmt.Sprintf("Set(%q, %s) = %s, want %s\n%s", o.id, encVal(o.value()), setRes[i], want, describe()))
		}
	}
	opsEnc := encOps(ops)
	var extra []string
	for _, o := range ops {
		if o.kind == 'j' {
			extra = append(extra, o.s)
		}
		if o.kind == 'J' {
			extra = append(extra, o.l...)
		}
	}
	jt2 := fd.jidTab(extra...)
	// Get of every variable and of an unknown one
	ids := []string{"nope"}
	for _, f := range fd.fields {
		ids = append(ids, f.varName)
	}
	for _, o := range ops {
		ids = append(ids, o.id)
	}
	seenID := map[string]bool{}
	for _, id := range ids {
		if seenID[id] {
			continue
		}
		seenID[id] = true
		var v interface{}
		var ok bool
		p := guard("Get", func() ([]byte, []xml.Token, error) { v, ok = d.Get(id); return nil, nil, nil })
		if p.panicked != "" {
			r.Fail("no-panic", "form.Data/Get/"+panicClass(p.panicked), lines, "Get panicked: "+p.panicked+"\n"+describe())
			continue
		}
		if !dup && repr {
			r.Line(fmt.Sprintf("fget %s %s %s %s", jt2, fd.enc(), opsEnc, hxOrDash(id)), encVal(v)+" "+common.B(ok))
		}
		// the typed getters: Get followed by a type assertion
		var typed [5]string
		tp := guard("GetTyped", func() ([]byte, []xml.Token, error) {
			enc := func(x interface{}, ok bool) string {
				if !ok {
					return "-"
				}
				return encVal(x)
			}
			s1, ok1 := d.GetString(id)
			s2, ok2 := d.GetStrings(id)
			b3, ok3 := d.GetBool(id)
			j4, ok4 := d.GetJID(id)
			j5, ok5 := d.GetJIDs(id)
			typed = [5]string{enc(s1, ok1), enc(s2, ok2), enc(b3, ok3), enc(j4, ok4), enc(j5, ok5)}
			return nil, nil, nil
		})
		if tp.panicked != "" {
			r.Fail("no-panic", "form.Data/GetTyped/"+panicClass(tp.panicked), lines, "a typed getter panicked: "+tp.panicked+"\n"+describe())
			continue
		}
		if !dup && repr {
			r.Line(fmt.Sprintf("fgett %s %s %s %s", jt2, fd.enc(), opsEnc, hxOrDash(id)), strings.Join(typed[:], " "))
		}
		nOK := 0
		for _, tv := range typed {
			if tv != "-" {
				nOK++
				if !ok || tv != encVal(v) {
					r.Fail("set-get", "form.Data/GetTyped/differs-from-Get", lines, fmt.Sprintf("Get(%q) = %s,%v but a typed getter answers %s\n%s", id, encVal(v), ok, tv, describe()))
				}
			}
		}
		if ok && v != nil && nOK != 1 {
			r.Fail("set-get", "form.Data/GetTyped/none-answers", lines, fmt.Sprintf("Get(%q) = %s,true but %d typed getters answer\n%s", id, encVal(v), nOK, describe()))
		}
		if _, was := lastSet[id]; !was && !dup {
			for _, f := range fd.fields {
				if f.varName == id {
					wv, wok := expectedDefault(f)
					if encVal(v) != wv || ok != wok {
						r.Fail("get-default", "form.Data/Get/"+f.typ, lines,
							fmt.Sprintf("Get(%q) of an unset %s field with values %q = %s,%v want %s,%v\n%s", id, f.typ, f.values, encVal(v), ok, wv, wok, describe()))
					}
					break
				}
			}
		}
		if o, was := lastSet[id]; was {
			if !ok || encVal(v) != encVal(o.value()) {
				r.Fail("set-get", "form.Data/Get-after-Set/"+string(o.kind), lines, fmt.Sprintf("Set(%q,%s) then Get = %s,%v\n%s", id, encVal(o.value()), encVal(v), ok, describe()))
			}
		}
	}
	var subToks []xml.Token
	var subOK bool
	sp := guard("Submit", func() ([]byte, []xml.Token, error) {
		tr, ok := d.Submit()
		subOK = ok
		b, toks, err := encodeTokens(tr)
		subToks = toks
		return b, toks, err
	})
	// --- history (a second call on the same value): Set, Get and Submit do not change the form
	// as it was built or received, so a second Submit writes what the first wrote and the
	// form itself still writes what it wrote before any of these calls
	if sp.panicked == "" && ps[1].panicked == "" && ps[1].err == nil {
		var sub2 []byte
		var sub2err error
		h := guard("TokenReader", func() ([]byte, []xml.Token, error) {
			tr, _ := d.Submit()
			sub2, _, sub2err = encodeTokens(tr)
			return encodeTokens(d.TokenReader())
		})
		switch {
		case h.panicked != "":
			r.Fail("no-panic", "form.Data/second-call/"+panicClass(h.panicked), lines, "second Submit / TokenReader panicked: "+h.panicked+"\nops: "+opsEnc+"\n"+describe())
		case h.err != nil:
			if repr {
				r.Fail("marshal-error", "form.Data/second-call", lines, h.err.Error()+"\n"+describe())
			}
		default:
			if sp.err == nil && sub2err == nil && string(sub2) != string(sp.out) {
				r.Fail("same-value", "form.Data/Submit/second-call", lines,
					fmt.Sprintf("two calls of Submit on the same form write different submissions\n%q\n%q\nops: %s\n%s", sp.out, sub2, opsEnc, describe()))
			}
			if string(h.out) != string(ps[1].out) {
				after, _ := descOf(d)
				r.Fail("roundtrip", "form.Data/after-Submit/"+formDiff(before, after), lines,
					fmt.Sprintf("the form writes something else after Set/Get/Submit than before (a reading call changed the value)\nbefore %q\nafter  %q\nops: %s\n%s", ps[1].out, h.out, opsEnc, describe()))
			}
			if repr && !dup {
				if toks, err := reparse(h.out); err == nil {
					// layer 2: the model's history (Model/Form.lean `history`) leaves the form as it was
					r.Line(fmt.Sprintf("fhist %s %s %s", jt2, fd.enc(), opsEnc), common.EncToks(canonOrder(toks)))
				}
			}
		}
	}
	switch {
	case sp.panicked != "":
		r.Fail("no-panic", "form.Data/Submit/"+panicClass(sp.panicked), lines, "Submit panicked: "+sp.panicked+"\nops: "+opsEnc+"\n"+describe())
		return
	case sp.err != nil:
		if repr {
			r.Fail("marshal-error", "form.Data/Submit", lines, sp.err.Error()+"\n"+describe())
		}
		return
	}
	bl := "bal " + common.EncToks(subToks)
	if repr {
		r.Line(bl, common.B(balancedToks(subToks)))
		c.skelLine("form.Data.TokenReader", subToks)
	}
	if !balancedToks(subToks) {
		r.Fail("well-formed", "form.Data/Submit/unbalanced", append(lines, r.Prop+" "+bl), describe())
	}
	if err := wellFormed(sp.out); err != nil {
		r.Fail("well-formed", "form.Data/Submit", lines, err.Error()+"\n"+describe())
		return
	}
	if !repr {
		return
	}
	toks, err := reparse(sp.out)
	if err == nil && !dup {
		r.Line(fmt.Sprintf("fsub %s %s %s", jt2, fd.enc(), opsEnc), strings.Join(setRes, "")+"x "+common.B(subOK)+" "+common.EncToks(canonOrder(toks)))
	}
	var back form.Data
	pan, derr := safeUnmarshal(sp.out, &back)
	if pan != "" || derr != nil {
		r.Fail("roundtrip", "form.Data/Submit/decode-error", lines, fmt.Sprintf("submission does not decode: %v %s\n%s", derr, pan, describe()))
		return
	}
	bd, _ := descOf(&back)
	if bd.typ != "submit" {
		r.Fail("submit-values", "form.Data/Submit/type", lines, "submission has type "+bd.typ+"\n"+describe())
	}
	if dup {
		return
	}
	// every successfully set value of a known, non-fixed field is carried by the submission
	for _, f := range fd.fields {
		o, was := lastSet[f.varName]
		if !was || f.typ == "fixed" {
			continue
		}
		want := expectedSubmitValues(f.typ, o)
		var got []string
		found := false
		for _, bf := range bd.fields {
			if bf.varName == f.varName {
				got, found = bf.values, true
			}
		}
		if !found && len(want) == 0 {
			continue
		}
		if strings.Join(hxs(got), ",") != strings.Join(hxs(want), ",") {
			r.Fail("submit-values", "form.Data/Submit/"+f.typ+"/"+string(o.kind), lines,
				fmt.Sprintf("field %q (%s): Set %s, submission carries %q, want %q\n%s", f.varName, f.typ, encVal(o.value()), got, want, describe()))
		}
	}
}

func hxOrDash(s string) string {
	if s == "" {
		return "-"
	}
	return hx(s)
}

func flat(o [][2]string) []string {
	var l []string
	for _, x := range o {
		l = append(l, x[0], x[1])
	}
	return l
}

func formDiff(want, got formDesc) string {
	switch {
	case want.title != got.title:
		return "title"
	case want.instr != got.instr:
		return "instructions"
	case want.typ != got.typ:
		return "type"
	case len(want.fields) != len(got.fields):
		return "field-count"
	}
	for i := range want.fields {
		a, b := want.fields[i], got.fields[i]
		switch {
		case a.typ != b.typ:
			return "field-type"
		case a.varName != b.varName:
			return "var"
		case a.label != b.label:
			return "label"
		case a.desc != b.desc:
			return "desc"
		case a.required != b.required:
			return "required"
		case strings.Join(hxs(a.values), ",") != strings.Join(hxs(b.values), ","):
			return "values/" + a.typ
		case strings.Join(hxs(flat(a.opts)), ",") != strings.Join(hxs(flat(b.opts)), ","):
			return "options"
		}
	}
	return "-"
}

func safeUnmarshal(b []byte, v interface{}) (panicked string, err error) {
	defer func() {
		if p := recover(); p != nil {
			panicked = fmt.Sprint(p)
		}
	}()
	return "", xml.Unmarshal(b, v)
}

// zeroFormCase drives the zero form.Data (what muc.GetConfigIQ and
// pubsub.GetConfig return when the reply carries no form) through the API.
func zeroFormCase(c *ctx) {
	r := c.r
	line := "val form.Data(zero) 0 0"
	r.Line(line, "-")
	lines := []string{r.Prop + " " + line}
	r.Case(line, true, "corpus/form.Data(zero)")
	// a nil form (what pubsub.GetConfig returns for a reply without a form): Submit accepts it
	if p := guard("Submit", func() ([]byte, []xml.Token, error) {
		tr, _ := (*form.Data)(nil).Submit()
		return encodeTokens(tr)
	}); p.panicked != "" {
		r.Fail("no-panic", "form.Data(nil)/Submit/"+panicClass(p.panicked), lines, "Submit on a nil *form.Data panicked: "+p.panicked)
	}
	for _, name := range []string{"Set", "Get", "Submit", "TokenReader", "Marshal", "Len", "Raw"} {
		d := &form.Data{}
		p := guard(name, func() ([]byte, []xml.Token, error) {
			switch name {
			case "Set":
				_, err := d.Set("x", "y")
				return nil, nil, err
			case "Get":
				d.Get("x")
			case "Submit":
				tr, _ := d.Submit()
				return encodeTokens(tr)
			case "TokenReader":
				return encodeTokens(d.TokenReader())
			case "Marshal":
				b, err := xml.Marshal(d)
				return b, nil, err
			case "Len":
				d.Len()
			case "Raw":
				d.Raw("x")
			}
			return nil, nil, nil
		})
		if p.panicked != "" {
			r.Fail("no-panic", "form.Data(zero)/"+name+"/"+panicClass(p.panicked), lines, name+" on the zero form.Data panicked: "+p.panicked)
		}
	}
}

// formWitnesses are minimal form interactions that once violated the property.
var formWitnesses = []struct {
	fd  formDesc
	ops []setOp
}{
	// a required text-multi field without a value: Submit sliced with -1
	{formDesc{typ: "form", fields: []fieldDesc{{typ: "text-multi", varName: "t", required: true}}}, nil},
	// a text-multi value ending in a line break, and the empty value
	{formDesc{typ: "form", fields: []fieldDesc{{typ: "text-multi", varName: "t"}}}, []setOp{{id: "t", kind: 's', s: "a\n"}}},
	{formDesc{typ: "form", fields: []fieldDesc{{typ: "text-multi", varName: "t"}}}, []setOp{{id: "t", kind: 's', s: ""}}},
	{formDesc{typ: "form", fields: []fieldDesc{{typ: "text-multi", varName: "t", values: []string{"l1", "l2"}}}}, []setOp{{id: "t", kind: 's', s: "a\r\nb"}}},
}

func formWitness(c *ctx, k int) {
	if k < 0 || k >= len(formWitnesses) {
		return
	}
	w := formWitnesses[k]
	formEval(c, fmt.Sprintf("val form.Data %d 2", k), w.fd, w.ops, false, false, "corpus")
}
