package c19

// Stream decoders: the decoding entry points of the anchored files that do not fill a Go
// value but hand out a *token reader* — forward.Unwrap, carbons.Unwrap — and the inserting
// transformers carbons.Private / styling.Disable.  "Unmarshalling arbitrary XML returns a
// value or an error" means for them: either some call (the entry point or a Token call of
// the returned reader) reports an error, or the tokens handed out are a well-formed forest.
//
// Generator dimension: documents assembled from an alphabet of children (well-formed and
// undecodable delays, delays in other namespaces / below the top level / with child
// elements, stanzas, text, comments, processing instructions), every sequence up to a
// length, with and without a delay pointer, under every wrapper; every prefix of the
// printed document cut at a token boundary (input that ends early); mutated copies of what
// Wrap wrote.  Every document is also run through the Lean model (`unw` / `ins` lines).

import (
	"bytes"
	"encoding/xml"
	"fmt"
	"io"
	"strings"
	"time"

	"mellium.im/xmlstream"

	"mellium.im/xmpp/carbons"
	"mellium.im/xmpp/delay"
	"mellium.im/xmpp/forward"
	"mellium.im/xmpp/receipts"
	"mellium.im/xmpp/jid"
	"mellium.im/xmpp/styling"
	"mellium.im/xmpp/xtime"

	"verifharness/common"
)

var streamKinds = []string{"forward.Unwrap", "carbons.Unwrap(received)", "carbons.Unwrap(sent)"}

// childAlphabet: the children a <forwarded/> is assembled from.
var childAlphabet = []string{
	`<message xmlns="jabber:client" to="juliet@example.net"><body>hi</body></message>`,
	`<delay xmlns="urn:xmpp:delay" stamp="2002-09-10T23:08:25Z">Offline Storage</delay>`,
	`<delay xmlns="urn:xmpp:delay" stamp="yesterday at noon">Offline Storage</delay>`,
	`<delay xmlns="urn:xmpp:delay" stamp="2002-09-10T23:08:25Z" from="@@/">late</delay>`,
	`<delay xmlns="urn:xmpp:delay" from="capulet.com" stamp="2002-09-10T23:08:25.5+01:00"/>`,
	`<delay xmlns="urn:xmpp:delay"/>`,
	`<delay xmlns="urn:xmpp:delay" stamp="2002-09-10T23:08:25Z"><x/>tail</delay>`,
	`<delay xmlns="urn:xmpp:delay" stamp="2002-09-10T23:08:25Z">a<![CDATA[<b>]]><!-- c --><y>z</y></delay>`,
	`<delay xmlns="urn:xmpp:delay" stamp="2002-09-10T23:08:25Z"><!-- c -->reason</delay>`,
	`<delay xmlns="urn:other" stamp="never">x</delay>`,
	`<d:delay xmlns:d="urn:xmpp:delay" d:stamp="never" stamp="2002-09-10T23:08:25Z">p</d:delay>`,
	`<message xmlns="jabber:client"><delay xmlns="urn:xmpp:delay" stamp="never">nested</delay><body>&lt;&amp;&#xA;é</body></message>`,
	"\n  ",
	"loose text",
	"<!-- comment -->",
	"<?pi x?>",
	`<unknown a="1"><delay xmlns="urn:xmpp:delay"/></unknown>`,
}

func wrapDoc(kind int, children string) string {
	doc := `<forwarded xmlns="urn:xmpp:forward:0">` + children + `</forwarded>`
	switch kind {
	case 1:
		doc = `<received xmlns="urn:xmpp:carbons:2">` + doc + `</received>`
	case 2:
		doc = `<sent xmlns="urn:xmpp:carbons:2">` + doc + `</sent>`
	}
	return doc
}

// tokenEnds returns the input offsets after every token of the document.
func tokenEnds(doc []byte) []int {
	d := xml.NewDecoder(bytes.NewReader(doc))
	var out []int
	for {
		_, err := d.Token()
		if err != nil {
			return out
		}
		out = append(out, int(d.InputOffset()))
	}
}

// nesting checks that a token list is a forest: every end tag closes the open element of
// the same name and nothing stays open.
func nesting(toks []xml.Token) string {
	var stack []xml.Name
	for _, t := range toks {
		switch t := t.(type) {
		case xml.StartElement:
			stack = append(stack, t.Name)
		case xml.EndElement:
			if len(stack) == 0 {
				return "end-without-start"
			}
			if stack[len(stack)-1] != t.Name {
				return "end-closes-other-element"
			}
			stack = stack[:len(stack)-1]
		}
	}
	if len(stack) != 0 {
		return "element-left-open"
	}
	return ""
}

func hexList(l []string) string {
	if len(l) == 0 {
		return "-"
	}
	var b strings.Builder
	for _, s := range l {
		b.WriteString("." + common.HexS(s))
	}
	return b.String()
}

// refused: which attribute values of the document the two external parsers refuse (the
// model's parameters).
func refused(toks []xml.Token) (badStamp, badFrom []string) {
	seenS, seenF := map[string]bool{}, map[string]bool{}
	for _, t := range toks {
		s, ok := t.(xml.StartElement)
		if !ok {
			continue
		}
		for _, a := range s.Attr {
			switch a.Name.Local {
			case "stamp":
				var xt xtime.Time
				if err := (&xt).UnmarshalXMLAttr(a); err != nil && !seenS[a.Value] {
					seenS[a.Value] = true
					badStamp = append(badStamp, a.Value)
				}
			case "from":
				var j jid.JID
				if err := (&j).UnmarshalXMLAttr(a); err != nil && !seenF[a.Value] {
					seenF[a.Value] = true
					badFrom = append(badFrom, a.Value)
				}
			}
		}
	}
	return
}

// unwrapDoc runs one document through Unwrap, reads the returned stream to its end and
// evaluates oracle and model line.  Replay line: `udoc <kind> <del> <hex document>`.
func unwrapDoc(c *ctx, kind int, withDelay bool, doc []byte, class string) {
	r := c.r
	name := streamKinds[kind]
	caseLine := fmt.Sprintf("udoc %d %s %s", kind, common.B(withDelay), common.Hex(doc))
	r.Mark("case udoc")
	r.Line(caseLine, "-")
	lines := []string{r.Prop + " " + caseLine}
	var got delay.Delay
	var sent bool
	var toks []xml.Token
	u := guard("Unwrap", func() ([]byte, []xml.Token, error) {
		dec := xml.NewDecoder(bytes.NewReader(doc))
		var del *delay.Delay
		if withDelay {
			del = &got
		}
		var out xml.TokenReader
		var err error
		if kind == 0 {
			out, err = forward.Unwrap(del, dec)
		} else {
			var st xml.StartElement
			out, st, err = carbons.Unwrap(del, dec)
			sent = st.Name.Local == "sent"
		}
		if err != nil {
			return nil, nil, err
		}
		// a token reader is read until it reports io.EOF or an error; a nil token with a nil
		// error is neither and is tolerated a bounded number of times
		idle := 0
		for n := 0; n < 100000; n++ {
			t, err := out.Token()
			if t != nil {
				toks = append(toks, xml.CopyToken(t))
				idle = 0
			}
			if err == io.EOF {
				return nil, toks, nil
			}
			if err != nil {
				return nil, toks, err
			}
			if t == nil {
				if idle++; idle > 3 {
					return nil, toks, nil
				}
			}
		}
		return nil, toks, fmt.Errorf("stream does not end")
	})
	r.Case(caseLine, u.err == nil && u.panicked == "", class+"/"+name)
	if u.panicked != "" {
		r.Fail("unmarshal-total", name+"/"+panicClass(u.panicked), lines, fmt.Sprintf("Unwrap of %q panicked: %s", doc, u.panicked))
		return
	}
	obs := "ERR"
	if u.err == nil {
		if bad := nesting(toks); bad != "" {
			r.Fail("unmarshal-total", name+"/neither-value-nor-error/"+bad, lines,
				fmt.Sprintf("Unwrap(delay pointer=%v) of %q reported no error, but the stream it handed out is not well-formed (%s): %s",
					withDelay, doc, bad, printToks(toks)))
		}
		reason := "-"
		if got.Reason != "" {
			reason = common.HexS(got.Reason)
		}
		obs = reason + " " + common.EncToks(toks)
		if kind != 0 {
			obs = common.B(sent) + " " + obs
		}
	}
	in, _ := common.Tokenize(doc) // the tokens before the first syntax error, if any
	bs, bf := refused(in)
	r.Line(fmt.Sprintf("unw %d %s %s %s %s", kind, common.B(withDelay), hexList(bs), hexList(bf), common.EncToks(in)), obs)
}

// insertDoc: carbons.Private and styling.Disable on an arbitrary token stream.  What they hand
// out must be a forest whenever the input is one, and be the input plus the hint elements.
func insertDoc(c *ctx, doc []byte, class string) {
	r := c.r
	in, err := common.Tokenize(doc)
	if err != nil {
		return
	}
	for _, tf := range []struct {
		name, model string
		f           func(xml.TokenReader) xml.TokenReader
	}{{"carbons.Private", "private", carbons.Private}, {"styling.Disable", "unstyled", styling.Disable}, {"receipts.Request", "request", receipts.Request}} {
		caseLine := fmt.Sprintf("udoc %s - %s", tf.model, common.Hex(doc))
		r.Mark("case udoc")
		r.Line(caseLine, "-")
		lines := []string{r.Prop + " " + caseLine}
		var toks []xml.Token
		u := guard(tf.name, func() ([]byte, []xml.Token, error) {
			t, err := common.ReadAllTokens(tf.f(xml.NewDecoder(bytes.NewReader(doc))))
			toks = t
			return nil, t, err
		})
		r.Case(caseLine, true, class+"/"+tf.name)
		switch {
		case u.panicked != "":
			r.Fail("no-panic", tf.name+"/"+panicClass(u.panicked), lines, fmt.Sprintf("%s on %q panicked: %s", tf.name, doc, u.panicked))
			continue
		case u.err != nil:
			r.Fail("marshal-error", tf.name+"/"+errClass(u.err), lines, fmt.Sprintf("%s on the well-formed %q failed: %v", tf.name, doc, u.err))
			continue
		}
		if bad := nesting(toks); bad != "" && nesting(in) == "" {
			r.Fail("well-formed", tf.name+"/"+bad, lines, fmt.Sprintf("%s on %q hands out %s", tf.name, doc, printToks(toks)))
		}
		r.Line("ins "+tf.model+" "+common.EncToks(in), common.EncToks(toks))
	}
}

func streamReplay(c *ctx, f []string) {
	// f = C19 udoc <kind|private|unstyled> <del> <hex>
	if len(f) < 5 {
		return
	}
	doc, err := common.UnHex(f[4])
	if err != nil {
		return
	}
	switch f[2] {
	case "delayinsert", "delaystanza":
		if doc, err := common.UnHex(f[4]); err == nil {
			delayInsertDoc(c, doc, "replay")
		}
	case "piter":
		pageIterReplay(c, f)
	case "siter":
		sessIterReplay(c, f)
	case "0", "1", "2":
		unwrapDoc(c, int(f[2][0]-'0'), f[3] == "1", doc, "replay")
	default:
		insertDoc(c, doc, "replay")
	}
}

// delayInsertDoc: delay.Insert / delay.Stanza (xmlstream.InsertFunc at level 1) on a forest.
func delayInsertDoc(c *ctx, doc []byte, class string) {
	r := c.r
	in, err := common.Tokenize(doc)
	if err != nil {
		return
	}
	d := delay.Delay{From: jid.MustParse("room@example.net"), Time: time.Date(2020, 1, 2, 3, 4, 5, 0, time.UTC), Reason: "r<&"}
	insToks, err := common.ReadAllTokens(d.TokenReader())
	if err != nil {
		return
	}
	for _, tf := range []struct {
		name, model, ns string
		f               xmlstream.Transformer
	}{{"delay.Insert", "delayinsert", "", delay.Insert(d)}, {"delay.Stanza", "delaystanza", "jabber:client", delay.Stanza(d, "jabber:client")},
		{"delay.Stanza", "delaystanza", "", delay.Stanza(d, "")}} {
		caseLine := fmt.Sprintf("udoc %s %s %s", tf.model, dashS(tf.ns), common.Hex(doc))
		r.Mark("case udoc")
		r.Line(caseLine, "-")
		lines := []string{r.Prop + " " + caseLine}
		var toks []xml.Token
		u := guard(tf.name, func() ([]byte, []xml.Token, error) {
			t, err := common.ReadAllTokens(tf.f(xml.NewDecoder(bytes.NewReader(doc))))
			toks = t
			return nil, t, err
		})
		r.Case(caseLine, true, class+"/"+tf.name)
		switch {
		case u.panicked != "":
			r.Fail("no-panic", tf.name+"/"+panicClass(u.panicked), lines, fmt.Sprintf("%s on %q panicked: %s", tf.name, doc, u.panicked))
			continue
		case u.err != nil:
			r.Fail("marshal-error", tf.name+"/"+errClass(u.err), lines, fmt.Sprintf("%s on the well-formed %q failed: %v", tf.name, doc, u.err))
			continue
		}
		if bad := nesting(toks); bad != "" && nesting(in) == "" {
			r.Fail("well-formed", tf.name+"/"+bad, lines, fmt.Sprintf("%s on %q hands out %s", tf.name, doc, printToks(toks)))
		}
		r.Line(fmt.Sprintf("ins2 %s %s %s %s", tf.model, dashS(tf.ns), common.EncToks(insToks), common.EncToks(in)), common.EncToks(toks))
	}
}

// streamCases is the runner part.
func streamCases(c *ctx) {
	r := c.r
	r.Mark("case stream-decoders")
	maxLen := r.Pick(2, 3)
	seqs := []string{""}
	level := []string{""}
	for l := 1; l <= maxLen; l++ { // shortest first
		var next []string
		for _, p := range level {
			for _, ch := range childAlphabet {
				next = append(next, p+ch)
			}
		}
		seqs = append(seqs, next...)
		level = next
	}
	nDocs := 0
	for _, children := range seqs {
		for kind := range streamKinds {
			if kind == 2 && len(children) > 0 && nDocs%3 != 0 && maxLen > 2 {
				// sent/received differ only in the reported start element
				nDocs++
				continue
			}
			for _, del := range []bool{true, false} {
				unwrapDoc(c, kind, del, []byte(wrapDoc(kind, children)), "enum")
				nDocs++
			}
		}
	}
	r.Exhaustive = append(r.Exhaustive, fmt.Sprintf("forward/carbons.Unwrap: every sequence of at most %d children from an alphabet of %d (delays that decode and that do not, other namespaces and depths, stanzas, text, comments, processing instructions), with and without a delay pointer", maxLen, len(childAlphabet)))
	// input that ends early: every prefix at a token boundary, and in the middle of a token
	for i, a := range childAlphabet {
		for _, b := range []string{"", childAlphabet[0], childAlphabet[1]} {
			for kind := 0; kind < 2; kind++ {
				doc := []byte(wrapDoc(kind, a+b))
				for _, cut := range tokenEnds(doc) {
					for _, del := range []bool{true, false} {
						unwrapDoc(c, kind, del, doc[:cut], "truncated")
						if cut > 3 && i%4 == 0 {
							unwrapDoc(c, kind, del, doc[:cut-2], "truncated")
						}
					}
				}
			}
		}
	}
	// roots the entry points must refuse, leading tokens, trailing documents
	for _, doc := range []string{
		"", " ", "text", "<!-- c -->" + wrapDoc(0, childAlphabet[0]), " " + wrapDoc(1, childAlphabet[1]),
		`<forwarded xmlns="urn:other">` + childAlphabet[1] + `</forwarded>`, `<forward xmlns="urn:xmpp:forward:0"/>`,
		`<sent xmlns="urn:xmpp:carbons:2"> ` + wrapDoc(0, childAlphabet[0]) + `</sent>`,
		`<sent xmlns="urn:xmpp:carbons:2"><!-- c -->` + wrapDoc(0, childAlphabet[0]) + `</sent>`,
		`<sent xmlns="urn:xmpp:carbons:2"/>`, `<private xmlns="urn:xmpp:carbons:2">` + wrapDoc(0, "") + `</private>`,
		`<sent xmlns="urn:other">` + wrapDoc(0, "") + `</sent>`,
		wrapDoc(2, childAlphabet[2]) + wrapDoc(0, childAlphabet[0]), wrapDoc(0, childAlphabet[1]) + "</x>",
		`<forwarded xmlns="urn:xmpp:forward:0"><a></b></forwarded>`,
	} {
		for kind := range streamKinds {
			for _, del := range []bool{true, false} {
				unwrapDoc(c, kind, del, []byte(doc), "root")
			}
		}
	}
	// random: generated delays (any text, junk attribute values) among generated siblings,
	// and mutated copies of what Wrap wrote
	n := r.Pick(300, 4000)
	rnd := c.rnd.Fork()
	for k := 0; k < n; k++ {
		g := &gen{r: common.NewRand(rnd.Uint64())}
		var b bytes.Buffer
		for m := g.intn(5); m > 0; m-- {
			switch g.intn(4) {
			case 0:
				b.WriteString(childAlphabet[g.intn(len(childAlphabet))])
			case 1:
				b.WriteString(`<delay xmlns="urn:xmpp:delay"`)
				if g.boolean() {
					b.WriteString(` stamp="`)
					if g.boolean() {
						_ = xml.EscapeText(&b, []byte(junk[g.intn(len(junk))]))
					} else {
						b.WriteString(g.time(false).UTC().Format("2006-01-02T15:04:05.999999999Z07:00"))
					}
					b.WriteString(`"`)
				}
				if g.boolean() {
					b.WriteString(` from="`)
					if g.boolean() {
						_ = xml.EscapeText(&b, []byte(junk[g.intn(len(junk))]))
					} else {
						_ = xml.EscapeText(&b, []byte(g.jid().String()))
					}
					b.WriteString(`"`)
				}
				b.WriteString(">")
				if t := g.text(); xmlValid(t) {
					_ = xml.EscapeText(&b, []byte(t))
				}
				if g.chance(1, 4) {
					b.WriteString(childAlphabet[g.intn(len(childAlphabet))])
				}
				b.WriteString("</delay>")
			case 2:
				if t := g.text(); xmlValid(t) {
					_ = xml.EscapeText(&b, []byte(t))
				}
			case 3:
				b.WriteString(childAlphabet[0])
			}
		}
		kind := g.intn(3)
		doc := []byte(wrapDoc(kind, b.String()))
		if g.chance(1, 3) {
			if toks, err := common.Tokenize(doc); err == nil {
				doc = printToks(mutate(g.r, toks))
			}
		}
		unwrapDoc(c, kind, g.boolean(), doc, "random")
		if k%4 == 0 {
			insertDoc(c, doc, "random")
		}
	}
	// the inserting transformers on every short sequence
	r.Mark("case stream-inserters")
	for i, children := range seqs {
		if len(seqs) > 400 && i%7 != 0 && i > 400 {
			continue
		}
		insertDoc(c, []byte(children), "enum")
		insertDoc(c, []byte(`<iq xmlns="jabber:client">`+children+`</iq>`), "enum")
		insertDoc(c, []byte(`<message xmlns="jabber:server">`+children+`</message>`), "enum")
		if i%3 == 0 {
			delayInsertDoc(c, []byte(children), "enum")
			delayInsertDoc(c, []byte(`<presence xmlns="jabber:client">`+children+`</presence><iq xmlns="jabber:server"/>`), "enum")
		}
	}
	// messages the stateful inserter (receipts.Request) treats differently: error type, a type
	// attribute in another namespace first, a receipt element inside / before / in an earlier
	// message, nested messages
	rc := `<receipt xmlns="urn:xmpp:receipts"/>`
	for _, d := range []string{
		`<message xmlns="jabber:client" type="error"><body>x</body></message>`,
		`<message xmlns="jabber:client" type="chat">` + rc + `</message>`,
		`<message xmlns="jabber:client" type="chat"><x xmlns="urn:y">` + rc + `</x><body/></message>`,
		`<message xmlns="jabber:client" xmlns:y="urn:y" y:type="error" type="chat"/>`,
		`<message xmlns="jabber:client" xmlns:y="urn:y" type="chat" y:type="error"/>`,
		rc + `<message xmlns="jabber:client"/>`,
		`<message xmlns="jabber:client">` + rc + `</message><message xmlns="jabber:server"><body/></message>`,
		`<message xmlns="jabber:client"><message xmlns="jabber:client" type="error"/></message>`,
		`<message xmlns="jabber:client" type="error"><message xmlns="jabber:server"/></message>`,
		`<iq xmlns="jabber:client">` + rc + `</iq><message xmlns="jabber:client"/>`,
		`<message xmlns="urn:other"/><message xmlns="jabber:client"><receipt xmlns="urn:other"/></message>`,
	} {
		insertDoc(c, []byte(d), "enum")
	}
}
