package c19

import (
	"encoding/xml"
	"fmt"
	"math"
	"time"

	"mellium.im/xmlstream"
	"mellium.im/xmpp"
	"mellium.im/xmpp/muc"
	"mellium.im/xmpp/pubsub"
)

// Payload types the harness module cannot name (internal/saslerr, muc's unexported join
// payload, the pubsub publish response) are reached through the tag-guarded export files of
// the library (verif_export.go in packages xmpp, muc, pubsub).  Each gets a local wrapper
// whose MarshalXML / UnmarshalXML delegate to the real methods, so the generic layer-3
// machinery (all writer paths, decode agreement, round trip, enumeration, witnesses, arbitrary
// XML) applies unchanged.

// ---- internal/saslerr.Condition ------------------------------------------------------------

type saslCondW struct{ N uint16 }

func (w saslCondW) MarshalXML(e *xml.Encoder, start xml.StartElement) error {
	return xmpp.VerifSASLCondition(w.N).MarshalXML(e, start)
}

func (w *saslCondW) UnmarshalXML(d *xml.Decoder, start xml.StartElement) error {
	n, err := xmpp.VerifDecodeSASLCondition(d, start)
	w.N = n
	return err
}

// saslValues: every defined condition, the boundary values around the table's end, far
// out-of-range values and the two's-complement images of -1 and -2.
var saslValues = []uint16{0, 1, 2, 3, 4, 5, 6, 7, 8, 9, 10, 11, 12, 13, 14, 100, 65534, 65535}

const saslDefined = 11 // conditions 1..11 are defined (0 is "none")

// ---- internal/saslerr.Error -----------------------------------------------------------------

type saslErrW struct {
	Cond       uint16
	Lang, Text string
}

func (w saslErrW) MarshalXML(e *xml.Encoder, start xml.StartElement) error {
	return xmpp.VerifSASLError(w.Cond, w.Lang, w.Text).MarshalXML(e, start)
}

func (w *saslErrW) UnmarshalXML(d *xml.Decoder, start xml.StartElement) error {
	c, l, t, err := xmpp.VerifDecodeSASLError(d, start)
	w.Cond, w.Lang, w.Text = c, l, t
	return err
}

// ---- muc join payload ---------------------------------------------------------------------

type mucJoinW struct {
	MaxStanzas, MaxChars *uint64
	Duration             *time.Duration
	Since                *time.Time
	Password, Nick       string
	// decoded form
	Seconds  *uint64
	SinceStr *string
}

func (w mucJoinW) opts() []muc.Option {
	var o []muc.Option
	if w.MaxStanzas != nil {
		o = append(o, muc.MaxHistory(*w.MaxStanzas))
	}
	if w.MaxChars != nil {
		o = append(o, muc.MaxBytes(*w.MaxChars))
	}
	switch {
	case w.Duration != nil:
		o = append(o, muc.Duration(*w.Duration))
	case w.Seconds != nil && *w.Seconds <= uint64(1<<62)/uint64(time.Second):
		// a decoded value: the option that yields the decoded number of seconds
		o = append(o, muc.Duration(time.Duration(*w.Seconds)*time.Second))
	}
	switch {
	case w.Since != nil:
		o = append(o, muc.Since(*w.Since))
	case w.SinceStr != nil:
		if t, err := time.Parse(time.RFC3339Nano, *w.SinceStr); err == nil {
			o = append(o, muc.Since(t))
		}
	}
	if w.Password != "" {
		o = append(o, muc.Password(w.Password))
	}
	if w.Nick != "" {
		o = append(o, muc.Nick(w.Nick))
	}
	return o
}

func (w mucJoinW) MarshalXML(e *xml.Encoder, start xml.StartElement) error {
	return muc.VerifJoinConfig(w.opts()...).MarshalXML(e, start)
}

func (w *mucJoinW) UnmarshalXML(d *xml.Decoder, start xml.StartElement) error {
	f, err := muc.VerifDecodeJoinConfig(d, start)
	*w = mucJoinW{MaxStanzas: f.MaxStanzas, MaxChars: f.MaxChars, Seconds: f.Seconds, SinceStr: f.Since, Password: f.Password, Nick: f.NewNick}
	return err
}

// wire form of the two time options, as the documentation of Duration / Since states it
func (w mucJoinW) seconds() *uint64 {
	if w.Seconds != nil {
		return w.Seconds
	}
	if w.Duration == nil {
		return nil
	}
	s := uint64(math.Abs(math.Round(w.Duration.Seconds())))
	return &s
}

func (w mucJoinW) since() *string {
	if w.SinceStr != nil {
		return w.SinceStr
	}
	if w.Since == nil {
		return nil
	}
	s := w.Since.UTC().Format(time.RFC3339Nano)
	return &s
}

func canonJoin(w *mucJoinW) string {
	k := (&kv{}).up("maxstanzas", w.MaxStanzas).up("maxchars", w.MaxChars).up("seconds", w.seconds())
	if s := w.since(); s == nil {
		k.f = append(k.f, "since=nil")
	} else {
		k.s("since", *s)
	}
	return k.s("password", w.Password).s("nick", w.Nick).String()
}

// ---- pubsub publish response ------------------------------------------------------------------

type pubRespW struct{ ID string }

func (w *pubRespW) UnmarshalXML(d *xml.Decoder, start xml.StartElement) error {
	id, err := pubsub.VerifDecodePublishResponse(d, start)
	w.ID = id
	return err
}

// the response has the shape of the request: written here by hand
func (w pubRespW) MarshalXML(e *xml.Encoder, _ xml.StartElement) error {
	_, err := xmlstream.Copy(e, xmlstream.Wrap(
		xmlstream.Wrap(
			xmlstream.Wrap(nil, xml.StartElement{Name: xml.Name{Local: "item"}, Attr: []xml.Attr{{Name: xml.Name{Local: "id"}, Value: w.ID}}}),
			xml.StartElement{Name: xml.Name{Local: "publish"}, Attr: []xml.Attr{{Name: xml.Name{Local: "node"}, Value: "n"}}}),
		xml.StartElement{Name: xml.Name{Space: pubsub.NS, Local: "pubsub"}}))
	return err
}

func init() {
	register(spec[saslCondW]{name: "saslerr.Condition",
		gen:        func(g *gen) saslCondW { return saslCondW{N: saslValues[g.intn(len(saslValues))]} },
		marshalVal: true, marshalPtr: true,
		tr:    func(v *saslCondW) xml.TokenReader { return xmpp.VerifSASLCondition(v.N).TokenReader() },
		wx:    func(v *saslCondW, w xmlstream.TokenWriter) (int, error) { return xmpp.VerifSASLCondition(v.N).WriteXML(w) },
		dec:   true,
		canon: func(v *saslCondW) string { return fmt.Sprintf("condition=%d", v.N) },
		// only a defined condition is written (anything else is "no condition": nothing is written)
		rt:        func(v *saslCondW) bool { return v.N >= 1 && v.N <= saslDefined },
		witnesses: []saslCondW{{0}, {1}, {saslDefined}, {saslDefined + 1}, {saslDefined + 2}, {65535}},
	})
	register(spec[saslErrW]{name: "saslerr.Error",
		gen: func(g *gen) saslErrW {
			return saslErrW{Cond: saslValues[g.intn(len(saslValues))], Lang: []string{"", "en", "de-CH"}[g.intn(3)], Text: g.opt()}
		},
		marshalVal: true, marshalPtr: true,
		tr:  func(v *saslErrW) xml.TokenReader { return xmpp.VerifSASLError(v.Cond, v.Lang, v.Text).TokenReader() },
		wx:  func(v *saslErrW, w xmlstream.TokenWriter) (int, error) { return xmpp.VerifSASLError(v.Cond, v.Lang, v.Text).WriteXML(w) },
		dec: true,
		canon: func(v *saslErrW) string {
			return (&kv{}).u("condition", uint64(v.Cond)).s("lang", v.Lang).s("text", v.Text).String()
		},
		norm: func(v saslErrW) saslErrW {
			if v.Cond > saslDefined {
				v.Cond = 0 // an undefined condition is not written
			}
			if v.Text == "" {
				v.Lang = "" // the language belongs to the text element
			}
			return v
		},
		witnesses: []saslErrW{{Cond: saslDefined + 1}, {Cond: saslDefined + 1, Lang: "en", Text: "t"}, {Cond: 3, Text: "a<b"}},
	})
	register(spec[mucJoinW]{name: "muc.config",
		gen: func(g *gen) mucJoinW {
			var w mucJoinW
			if g.boolean() {
				v := g.u64()
				w.MaxStanzas = &v
			}
			if g.boolean() {
				v := g.u64()
				w.MaxChars = &v
			}
			if g.boolean() {
				d := []time.Duration{0, time.Second, -90 * time.Second, 1500 * time.Millisecond, 400 * time.Millisecond}[g.intn(5)]
				w.Duration = &d
			}
			if g.boolean() {
				t := g.time(false)
				w.Since = &t
			}
			w.Password, w.Nick = g.opt(), []string{"", "nick", "n<&>"}[g.intn(3)]
			return w
		},
		marshalVal: true, marshalPtr: true,
		tr:    func(v *mucJoinW) xml.TokenReader { return muc.VerifJoinConfig(v.opts()...).TokenReader() },
		wx:    func(v *mucJoinW, w xmlstream.TokenWriter) (int, error) { return muc.VerifJoinConfig(v.opts()...).WriteXML(w) },
		dec:   true,
		canon: canonJoin,
		norm: func(v mucJoinW) mucJoinW {
			v.Nick = "" // the nickname goes into the address of the presence, not into the payload
			return v
		},
		rt:   func(v *mucJoinW) bool { return v.Since == nil || inRange(*v.Since) },
		text: func(v *mucJoinW) []string { return []string{v.Password, v.Nick} },
		// a decoded payload is only a value of the exported API when the options can produce
		// it again: `since` is a time (the decoder keeps any string), `seconds` a Duration
		valid: func(v *mucJoinW) bool {
			if v.SinceStr != nil {
				t, err := time.Parse(time.RFC3339Nano, *v.SinceStr)
				if err != nil || !inRange(t) || t.UTC().Format(time.RFC3339Nano) != *v.SinceStr {
					return false
				}
			}
			return v.Seconds == nil || *v.Seconds <= uint64(1<<62)/uint64(time.Second)
		},
	})
	register(spec[pubRespW]{name: "pubsub.publishResponse",
		gen:        func(g *gen) pubRespW { return pubRespW{ID: g.text()} },
		marshalVal: true, marshalPtr: true,
		dec:   true,
		canon: func(v *pubRespW) string { return (&kv{}).s("id", v.ID).String() },
	})
}
