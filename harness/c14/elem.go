package c14

// Round E: the multiplexer from the element on.
//
//	elem     HandleXMPP on a complete top-level element, for every way a ServeMux value comes to be
//	         (New with options, options applied after New, the zero value, a ServeMux embedded by
//	         value) and with top-level patterns competing with the stanza routers
//	overlap  a second dispatch through the SAME multiplexer while a handler of the first is still
//	         running (re-entrant from inside the handler; on another goroutine), after earlier
//	         dispatches: the multiplexer must keep nothing per dispatch
//	addr     (direct / iqdirect with a parse map) own addresses jid.Parse rewrites or rejects

import (
	"encoding/xml"
	"fmt"
	"strings"
	"time"

	"mellium.im/xmlstream"
	"mellium.im/xmpp/jid"
	"mellium.im/xmpp/mux"
	"mellium.im/xmpp/stanza"

	"verifharness/c08"
	"verifharness/common"
)

var ctors = []string{"new", "late", "zero", "value"}

// muxNSOf is the stanza namespace a multiplexer built by ctor holds: the zero value has none
// given, which stanza.Is reads as "any namespace".
func muxNSOf(ctor, ns string) string {
	if ctor == "zero" || ctor == "value" {
		return ""
	}
	return ns
}

type holder struct {
	pad int
	M   mux.ServeMux
	end string
}

// buildCtor makes the multiplexer in one of the ways the exported API allows.
func buildCtor(ctor, ns string, opts []mux.Option) (m *mux.ServeMux, panicked string) {
	panicked = common.Recover(func() {
		switch ctor {
		case "new":
			m = mux.New(ns, opts...)
		case "late":
			m = mux.New(ns)
			for _, o := range opts {
				o(m)
			}
		case "zero":
			m = &mux.ServeMux{}
			for _, o := range opts {
				o(m)
			}
		default:
			h := &holder{}
			m = &h.M
			for _, o := range opts {
				o(m)
			}
		}
	})
	return m, panicked
}

func kindOfLocal(l string) string {
	switch l {
	case "iq":
		return "i"
	case "message":
		return "m"
	case "presence":
		return "p"
	}
	return ""
}

// elemToks tokenises one element with the real decoder (the stream's default namespace is
// jabber:client; other namespaces are declared on the element).
func elemToks(sx string) ([]xml.Token, xml.StartElement, bool) {
	toks := c08.Tokens(c08.NSClient, []byte(sx+"</stream:stream>"))
	if len(toks) < 3 {
		return nil, xml.StartElement{}, false
	}
	st, ok := toks[0].(xml.StartElement)
	return toks[:len(toks)-1], st, ok
}

// elem calls HandleXMPP with one complete top-level element.
func (c *ctx) elem(ctor, ns string, ps []Pat, sx string, cons []int, class string) {
	r := c.r
	toks, st, ok := elemToks(sx)
	if !ok {
		return
	}
	line := strings.Join([]string{"elem", ctor, field(ns), encPats(ps), common.EncToks(toks), encInts(cons)}, " ")
	lines := []string{r.Prop + " " + line, "#elem " + common.HexS(sx)}
	rec := &recorder{cons: cons}
	opts := make([]mux.Option, len(ps))
	for i, p := range ps {
		opts[i] = option(p, rec, false)
	}
	var m *mux.ServeMux
	var p string
	if ctor == "redis" {
		// half of the registrations, the element dispatched once (whatever it resolves to must not
		// stick), the other half: the answer is that of the complete table
		m, p = buildCtor("late", ns, opts[:len(opts)/2])
		if p == "" {
			p = common.Recover(func() {
				s0 := st.Copy()
				_ = m.HandleXMPP(&framedReader{toks: toks[1:], framing: "sep"}, &s0)
				rec.calls, rec.k = nil, 0
				for _, o := range opts[len(opts)/2:] {
					o(m)
				}
			})
		}
	} else {
		m, p = buildCtor(ctor, ns, opts)
	}
	if p != "" {
		r.Line(line, "BUILD-PANIC")
		return
	}
	fr := &framedReader{toks: toks[1:], framing: "sep"}
	start := st.Copy()
	var herr error
	if pn := common.Recover(func() { herr = m.HandleXMPP(fr, &start) }); pn != "" {
		r.Line(line, "PANIC")
		r.Fail("no-panic", "panic", lines, pn)
		return
	}
	reply, isReply := fallbackReply(fr.out)
	obs := "-"
	switch {
	case len(rec.calls) > 0:
		var es []string
		for _, cl := range rec.calls {
			es = append(es, cl.pat.Enc())
		}
		obs = strings.Join(es, "/")
	case herr != nil:
		obs = "err"
	case isReply && reply.typ == "error" && fr.other == 0:
		obs = "fallback@" + hx(reply.to) + "/" + hx(reply.from) + "/" + hx(reply.id)
	case fr.wrote > 0:
		obs = "wrote"
	}
	r.Line(line, obs)
	ens := muxNSOf(ctor, ns)
	kind := kindOfLocal(st.Name.Local)
	isStanza := kind != "" && (ens == "" || st.Name.Space == ens)
	r.Case(line, obs != "-", fmt.Sprintf("%s/elem-%s/%v", class, ctor, isStanza))

	// ---- the specification -------------------------------------------------------------
	// a stanza of the multiplexer's namespace (every namespace when it holds none) belongs to the
	// patterns of its own kind and type and to the defaults; anything else to the most specific
	// top-level pattern, or to nobody
	top := best(ps, "t", "", st.Name)
	var want []string
	wantReply := false
	switch {
	case isStanza && kind == "i":
		h := specHdr("i", st.Attr)
		var payload *xml.StartElement
		for _, t := range toks[1 : len(toks)-1] {
			if cd, isCD := t.(xml.CharData); isCD && strings.TrimLeft(string(cd), " \n\r\t") == "" {
				continue
			}
			if s, isS := t.(xml.StartElement); isS {
				payload = &s
			}
			break
		}
		if payload == nil {
			return
		}
		if b := best(ps, "i", h.typ, payload.Name); b != nil {
			want = []string{b.Enc()}
		} else {
			wantReply = h.typ != "result" && h.typ != "error"
		}
	case isStanza:
		h := specHdr(kind, st.Attr)
		depth := 0
		for _, t := range toks[1:] {
			switch tt := t.(type) {
			case xml.StartElement:
				if depth == 0 {
					if b := best(ps, kind, h.typ, tt.Name); b != nil {
						want = append(want, b.Enc())
					}
				}
				depth++
			case xml.EndElement:
				depth--
			}
		}
		if len(toks) == 2 {
			if b := best(ps, kind, h.typ, xml.Name{}); b != nil {
				want = append(want, b.Enc())
			}
		}
	case top != nil:
		want = []string{top.Enc()}
	}
	wantObs := "-"
	if len(want) > 0 {
		wantObs = strings.Join(want, "/")
	}
	if isStanza && top != nil && len(rec.calls) == 1 && rec.calls[0].pat.Kind == "t" {
		// a top-level pattern took a stanza away from the patterns of its kind and from the defaults
		if wantObs != "-" || wantReply {
			r.Fail("own-kind", "top-level-pattern-shadows-stanzas", lines, fmt.Sprintf("the %s stanza went to the top-level handler %s; the patterns of its own kind and type say %s (default reply: %v)", st.Name.Local, rec.calls[0].pat.Enc(), wantObs, wantReply))
		}
		return
	}
	switch {
	case wantReply && !strings.HasPrefix(obs, "fallback@"):
		r.Fail("defaults", "elem-request-unanswered/"+ctor, lines, fmt.Sprintf("unhandled request through a multiplexer made by %q (namespace %q): observed %s, want one service-unavailable error", ctor, ens, obs))
	case !wantReply && obs != wantObs:
		k := kind
		if !isStanza {
			k = "t"
		}
		r.Fail("most-specific", "elem-"+ctor+"/"+k, lines, fmt.Sprintf("element %v through a multiplexer made by %q (namespace %q): ran %s, want %s", st.Name, ctor, ens, obs, wantObs))
	}
}

// ---- overlapping dispatches ----------------------------------------------------------

type ovFrame struct {
	cons  []int
	k     int
	calls []call
	fr    *framedReader // the reader / encoder of this dispatch
}

type ovState struct {
	frames map[string]*ovFrame // by stanza id
	// the handler with ordinal at of the stanza with id "A", after reading pre tokens, runs hook
	at, pre int
	hook    func()
	fired   bool
	// the first handler of stanza "B" parks after reading its tokens (mode conc2)
	park chan struct{}
	cont chan struct{}
}

type ovMarker struct {
	pat Pat
	st  *ovState
}

func (m ovMarker) run(id string, t xmlstream.TokenReadEncoder) error {
	fr := m.st.frames[id]
	if fr == nil {
		return nil
	}
	ord := fr.k
	fr.k++
	n := 0
	if ord < len(fr.cons) {
		n = fr.cons[ord]
	}
	cl := call{pat: m.pat}
	read := func(k int) {
		for i := 0; i < k && !cl.eof; i++ {
			tok, err := t.Token()
			if tok != nil {
				cl.toks = append(cl.toks, xml.CopyToken(tok))
			}
			if err != nil {
				cl.eof = true
			}
		}
	}
	if id == "A" && ord == m.st.at && !m.st.fired && m.st.hook != nil {
		m.st.fired = true
		pre := m.st.pre
		if pre > n {
			pre = n
		}
		read(pre)
		m.st.hook()
		read(n - pre)
	} else {
		read(n)
		if id == "B" && ord == 0 && m.st.park != nil {
			m.st.park <- struct{}{}
			select {
			case <-m.st.cont:
			case <-time.After(5 * time.Second):
			}
		}
	}
	fr.calls = append(fr.calls, cl)
	return nil
}

func (m ovMarker) HandleMessage(v stanza.Message, t xmlstream.TokenReadEncoder) error {
	return m.run(v.ID, t)
}
func (m ovMarker) HandlePresence(v stanza.Presence, t xmlstream.TokenReadEncoder) error {
	return m.run(v.ID, t)
}
func (m ovMarker) HandleIQ(v stanza.IQ, t xmlstream.TokenReadEncoder, start *xml.StartElement) error {
	err := m.run(v.ID, t)
	if fr := m.st.frames[v.ID]; fr != nil && len(fr.calls) > 0 && start != nil {
		fr.calls[len(fr.calls)-1].payload = start.Name
	}
	return err
}

// encDispatch renders what one dispatch of the overlap did: the calls of a message / presence,
// or (IQ) the handler with the payload it was given and what it read / the default reply / nothing.
func encDispatch(kind string, f *ovFrame) string {
	if kind != "i" {
		return encCalls(f.calls)
	}
	if len(f.calls) > 0 {
		cl := f.calls[0]
		return "h=" + cl.pat.Enc() + "@" + encName(cl.payload) + "=" + common.EncToks(cl.toks)
	}
	if f.fr != nil {
		if reply, isReply := fallbackReply(f.fr.out); isReply && reply.typ == "error" && f.fr.other == 0 {
			return "fallback@" + hx(reply.to) + "/" + hx(reply.from) + "/" + hx(reply.id)
		}
		if f.fr.wrote > 0 {
			return "wrote"
		}
	}
	return "nothing"
}

func encCalls(cs []call) string {
	var obs []string
	for _, cl := range cs {
		obs = append(obs, cl.pat.Enc()+"="+common.EncToks(cl.toks))
	}
	return common.Join(obs, "/")
}

// overlap dispatches stanza A (id="A") and, while its handler with ordinal at has read pre
// tokens, stanza B (id="B") through the same multiplexer; warm earlier stanzas (id="W") have
// been dispatched before.  mode nest: B from inside A's handler; conc: B on another goroutine,
// completely; conc2: B's first handler parks until A's dispatch has returned.
func (c *ctx) overlap(mode string, warm int, ps []Pat, ax string, consA []int, at, pre int, bx string, consB []int, class string) {
	r := c.r
	toksA, stA, okA := elemToks(ax)
	toksB, stB, okB := elemToks(bx)
	if !okA || !okB {
		return
	}
	line := strings.Join([]string{"overlap", mode, fmt.Sprint(warm), encPats(ps), common.EncToks(toksA), encInts(consA), fmt.Sprint(at), fmt.Sprint(pre), common.EncToks(toksB), encInts(consB)}, " ")
	lines := []string{r.Prop + " " + line, "#a " + common.HexS(ax), "#b " + common.HexS(bx)}
	st := &ovState{frames: map[string]*ovFrame{"A": {cons: consA}, "B": {cons: consB}, "W": {cons: []int{99, 0, 99}}}, at: at, pre: pre}
	var m *mux.ServeMux
	if pn := common.Recover(func() {
		m = mux.New(c08.NSClient)
		for _, p := range ps {
			mk := ovMarker{pat: p, st: st}
			if p.Kind == "m" {
				mux.Message(stanza.MessageType(p.Typ), p.Name, mk)(m)
			} else if p.Kind == "i" {
				mux.IQ(stanza.IQType(p.Typ), p.Name, mk)(m)
			} else {
				mux.Presence(stanza.PresenceType(p.Typ), p.Name, mk)(m)
			}
		}
	}); pn != "" {
		r.Line(line, "BUILD-PANIC")
		return
	}
	send := func(toks []xml.Token, st0 xml.StartElement) error {
		fr := &framedReader{toks: toks[1:], framing: "sep"}
		if f := st.frames[specHdr("i", st0.Attr).id]; f != nil {
			f.fr = fr
		}
		start := st0.Copy()
		return m.HandleXMPP(fr, &start)
	}
	stall := false
	pn := common.Recover(func() {
		for i := 0; i < warm; i++ {
			// earlier stanzas of growing size, kinds alternating
			local := []string{"message", "presence"}[i%2]
			wx := "<" + local + ` id="W" type="` + attrOfKind(local) + `">` + strings.Repeat(`<x xmlns="urn:a">t</x>`, 2+6*i) + "</" + local + ">"
			wt, ws, _ := elemToks(wx)
			st.frames["W"].k = 0
			_ = send(wt, ws)
		}
		done := make(chan struct{})
		switch mode {
		case "nest":
			st.hook = func() { _ = send(toksB, stB) }
		case "conc":
			st.hook = func() {
				go func() {
					defer close(done)
					common.Recover(func() { _ = send(toksB, stB) })
				}()
				select {
				case <-done:
				case <-time.After(5 * time.Second):
					stall = true
				}
			}
		default: // conc2
			st.park = make(chan struct{}, 1)
			st.cont = make(chan struct{})
			st.hook = func() {
				go func() {
					defer close(done)
					common.Recover(func() { _ = send(toksB, stB) })
				}()
				select {
				case <-st.park:
				case <-done:
				case <-time.After(5 * time.Second):
					stall = true
				}
			}
		}
		_ = send(toksA, stA)
		if !st.fired {
			// no handler of A had that ordinal: B simply comes afterwards
			st.fired = true
			st.park = nil
			_ = send(toksB, stB)
		} else if mode == "conc2" {
			close(st.cont)
			select {
			case <-done:
			case <-time.After(5 * time.Second):
				stall = true
			}
		}
	})
	if pn != "" || stall {
		r.Line(line, "PANIC-OR-STALL")
		r.Fail("no-panic", "overlap-panic", lines, pn)
		return
	}
	fa, fb := st.frames["A"], st.frames["B"]
	r.Line(line, encDispatch(kindOfLocal(stA.Name.Local), fa)+"&"+encDispatch(kindOfLocal(stB.Name.Local), fb))
	r.Case(line, st.fired, fmt.Sprintf("%s/overlap-%s/%d/%v", class, mode, warm, st.fired))
	// every handler of either stanza reads ITS stanza from the start element
	for _, d := range []struct {
		id   string
		toks []xml.Token
		st   xml.StartElement
		fr   *ovFrame
	}{{"A", toksA, stA, fa}, {"B", toksB, stB, fb}} {
		if d.id == "B" && !st.fired {
			continue
		}
		kind := kindOfLocal(d.st.Name.Local)
		typ := specHdr(kind, d.st.Attr).typ
		if kind == "i" {
			// the payload is the first child; its handler reads what follows inside the IQ
			var inTok []xml.Token
			for _, t := range d.toks[1 : len(d.toks)-1] {
				if cd, isCD := t.(xml.CharData); isCD && len(inTok) == 0 && strings.TrimLeft(string(cd), " \n\r\t") == "" {
					continue
				}
				inTok = append(inTok, t)
			}
			ps0, isStart := xml.StartElement{}, false
			if len(inTok) > 0 {
				ps0, isStart = inTok[0].(xml.StartElement)
			}
			if !isStart {
				continue
			}
			req := specHdr("i", d.st.Attr)
			obs := encDispatch("i", d.fr)
			switch b := best(ps, "i", typ, ps0.Name); {
			case b != nil && (len(d.fr.calls) != 1 || d.fr.calls[0].pat != *b):
				r.Fail("most-specific", "overlap-iq-dispatch", lines, fmt.Sprintf("IQ %s: observed %s, want the handler of %s", d.id, obs, b.Enc()))
			case b != nil:
				wt := inTok[1:]
				if n := d.fr.cons[0]; n < len(wt) {
					wt = wt[:n]
				}
				if d.fr.calls[0].payload != ps0.Name || common.EncToks(d.fr.calls[0].toks) != common.EncToks(wt) {
					r.Fail("full-stanza", "overlap-iq-view", lines, fmt.Sprintf("IQ %s (dispatched %s while another dispatch was in flight): the handler was given %v and read %s, want %v and %s", d.id, mode, d.fr.calls[0].payload, common.EncToks(d.fr.calls[0].toks), ps0.Name, common.EncToks(wt)))
				}
			case typ != "result" && typ != "error":
				want := "fallback@" + hx(req.from) + "/" + hx(req.to) + "/" + hx(req.id)
				if obs != want {
					r.Fail("defaults", "overlap-request-unanswered", lines, fmt.Sprintf("unhandled IQ %s dispatched %s while another dispatch was in flight: observed %s, want %s", d.id, mode, obs, want))
				}
			}
			continue
		}
		var want []*Pat
		depth := 0
		for _, t := range d.toks[1:] {
			switch tt := t.(type) {
			case xml.StartElement:
				if depth == 0 {
					if b := best(ps, kind, typ, tt.Name); b != nil {
						want = append(want, b)
					}
				}
				depth++
			case xml.EndElement:
				depth--
			}
		}
		if len(d.toks) == 2 {
			if b := best(ps, kind, typ, xml.Name{}); b != nil {
				want = append(want, b)
			}
		}
		if len(want) != len(d.fr.calls) {
			r.Fail("most-specific", "overlap-count", lines, fmt.Sprintf("stanza %s: %d handlers ran, want %d", d.id, len(d.fr.calls), len(want)))
			continue
		}
		for i, cl := range d.fr.calls {
			if cl.pat != *want[i] {
				r.Fail("most-specific", "overlap-child-handler", lines, fmt.Sprintf("stanza %s call %d went to %s, want %s", d.id, i, cl.pat.Enc(), want[i].Enc()))
			}
			n := 0
			if i < len(d.fr.cons) {
				n = d.fr.cons[i]
			}
			wt := d.toks
			if n < len(wt) {
				wt = wt[:n]
			}
			if common.EncToks(cl.toks) != common.EncToks(wt) {
				r.Fail("full-stanza", "overlap-view", lines, fmt.Sprintf("stanza %s (dispatched %s while another dispatch was in flight on the same multiplexer, after %d earlier ones): call %d read %s, want %s", d.id, mode, warm, i, common.EncToks(cl.toks), common.EncToks(wt)))
			}
		}
	}
}

func attrOfKind(local string) string {
	if local == "message" {
		return "chat"
	}
	return "unavailable"
}

// ---- addresses --------------------------------------------------------------------

// parseMap asks the real jid.Parse about every own, non-empty to / from of the start element:
// the canonical string form, or "!" when the address is rejected.  (jid.Parse is outside the
// model: its verdicts are handed to it.)
func parseMap(attrs []xml.Attr) (enc string, canon map[string]string, bad bool) {
	canon = map[string]string{}
	var es []string
	for _, a := range attrs {
		if a.Name.Space != "" || (a.Name.Local != "to" && a.Name.Local != "from") || a.Value == "" {
			continue
		}
		if _, seen := canon[a.Value]; seen {
			continue
		}
		j, err := jid.Parse(a.Value)
		if err != nil {
			canon[a.Value] = "!"
			es = append(es, hx(a.Value)+"=!")
			bad = true
			continue
		}
		canon[a.Value] = j.String()
		es = append(es, hx(a.Value)+"="+hx(j.String()))
	}
	return common.Join(es, ","), canon, bad
}

// addrDirect: a message / presence whose own addresses jid.Parse rewrites or rejects, handed to
// HandleXMPP directly.  Rejected: the router returns the error, no handler runs, nothing is
// written.  Otherwise the dispatch is the usual one and the stanza value carries the canonical
// addresses.
func (c *ctx) addrDirect(ps []Pat, sx string, cons []int, framing, class string) {
	r := c.r
	toks, st, ok := elemToks(sx)
	if !ok {
		return
	}
	kind := kindOfLocal(st.Name.Local)
	if kind == "i" {
		c.addrIQ(ps, sx, cons, framing, class)
		return
	}
	pm, canon, bad := parseMap(st.Attr)
	sh := specHdr(kind, st.Attr)
	line := strings.Join([]string{"direct", framing, kind, field(sh.typ), encPats(ps), common.EncToks(toks), encInts(cons), "-", pm}, " ")
	lines := []string{r.Prop + " " + line, "#addr " + common.HexS(sx)}
	rec := &recorder{cons: cons, errs: map[int]bool{}, write: true}
	m, p := buildFn(c08.NSClient, ps, rec, framing == "sep")
	if p != "" {
		r.Line(line, "BUILD-PANIC")
		return
	}
	fr := &framedReader{toks: toks[1:], framing: framing}
	start := st.Copy()
	var herr error
	if pn := common.Recover(func() { herr = m.HandleXMPP(fr, &start) }); pn != "" {
		r.Line(line, "PANIC")
		r.Fail("no-panic", "panic", lines, pn)
		return
	}
	ords, rest := fr.handlerWrites()
	var obs string
	switch {
	case herr != nil && len(rec.calls) == 0 && fr.wrote == 0:
		obs = "addrerr"
	case herr != nil:
		obs = "err-after-calls"
	default:
		a := "-"
		if len(rec.calls) > 0 && rec.calls[0].val != nil {
			a = hx(rec.calls[0].val.to) + "/" + hx(rec.calls[0].val.from)
		}
		obs = encCalls(rec.calls) + "|err=-|w=" + encInts(ords) + "|a=" + a
		if len(rest) > 0 || fr.other > 0 {
			obs += "|wrote"
		}
	}
	r.Line(line, obs)
	r.Case(line, len(rec.calls) > 0 || bad, fmt.Sprintf("%s/addr-%s/%v", class, kind, bad))
	switch {
	case bad && (len(rec.calls) > 0 || fr.wrote > 0):
		r.Fail("dispatch-ok", "bad-address-dispatched", lines, fmt.Sprintf("an own address of the stanza is not an address, yet %d handlers ran and %d tokens were written", len(rec.calls), fr.wrote))
	case bad && herr == nil:
		r.Fail("dispatch-ok", "bad-address-swallowed", lines, "an own address of the stanza is not an address and HandleXMPP returned nil")
	case !bad && herr != nil:
		r.Fail("dispatch-ok", "dispatch-error/addr", lines, fmt.Sprintf("HandleXMPP returned %v", herr))
	case !bad:
		want := hdr{sh.typ, sh.id, canon[sh.to], canon[sh.from]}
		for i, cl := range rec.calls {
			if cl.val != nil && *cl.val != want {
				r.Fail("full-stanza", "stanza-value", lines, fmt.Sprintf("call %d was handed the stanza value %+v, want %+v", i, *cl.val, want))
			}
		}
	}
}

func (c *ctx) addrIQ(ps []Pat, sx string, cons []int, framing, class string) {
	r := c.r
	toks, st, ok := elemToks(sx)
	if !ok {
		return
	}
	pm, canon, bad := parseMap(st.Attr)
	req := specHdr("i", st.Attr)
	cn := 0
	if len(cons) > 0 {
		cn = cons[0]
	}
	line := strings.Join([]string{"iqdirect", framing, field(req.typ), encPats(ps), common.EncToks(toks), fmt.Sprint(cn), pm}, " ")
	lines := []string{r.Prop + " " + line, "#addr " + common.HexS(sx)}
	rec := &recorder{cons: []int{cn}, write: true}
	m, p := buildFn(c08.NSClient, ps, rec, framing == "sep")
	if p != "" {
		r.Line(line, "BUILD-PANIC")
		return
	}
	fr := &framedReader{toks: toks[1:], framing: framing}
	start := st.Copy()
	var herr error
	if pn := common.Recover(func() { herr = m.HandleXMPP(fr, &start) }); pn != "" {
		r.Line(line, "PANIC")
		r.Fail("no-panic", "panic", lines, pn)
		return
	}
	_, written := fr.handlerWrites()
	reply, isReply := fallbackReply(written)
	obs := "nothing"
	switch {
	case len(rec.calls) > 0:
		cl := rec.calls[0]
		obs = "h=" + cl.pat.Enc() + "@" + encName(cl.payload) + "=" + common.EncToks(cl.toks)
	case herr != nil && fr.wrote == 0:
		obs = "err"
	case herr != nil:
		obs = "err-after-write"
	case isReply && reply.typ == "error" && fr.other == 0:
		obs = "fallback@" + hx(reply.to) + "/" + hx(reply.from) + "/" + hx(reply.id)
	case fr.wrote > 0:
		obs = "wrote"
	}
	r.Line(line, obs)
	r.Case(line, true, fmt.Sprintf("%s/addr-i/%v", class, bad))
	request := req.typ != "result" && req.typ != "error"
	switch {
	case bad && (len(rec.calls) > 0 || fr.wrote > 0):
		r.Fail("dispatch-ok", "bad-address-dispatched", lines, fmt.Sprintf("an own address of the IQ is not an address, yet %d handlers ran and %d tokens were written", len(rec.calls), fr.wrote))
	case bad && herr == nil:
		r.Fail("dispatch-ok", "bad-address-swallowed", lines, "an own address of the IQ is not an address and HandleXMPP returned nil")
	case !bad && len(rec.calls) == 0 && request && !strings.HasPrefix(obs, "fallback@"):
		r.Fail("defaults", "request-unanswered", lines, fmt.Sprintf("unhandled %s IQ (to=%q from=%q): observed %s, want one service-unavailable error", req.typ, req.to, req.from, obs))
	case !bad && len(rec.calls) == 0 && request && (reply.to != canon[req.from] || reply.from != canon[req.to] || reply.id != req.id):
		r.Fail("defaults", "reply-misaddressed", lines, fmt.Sprintf("unhandled %s IQ id=%q to=%q from=%q: the error reply has id=%q to=%q from=%q", req.typ, req.id, req.to, req.from, reply.id, reply.to, reply.from))
	case !bad && len(rec.calls) == 1 && rec.calls[0].val != nil:
		want := hdr{req.typ, req.id, canon[req.to], canon[req.from]}
		if *rec.calls[0].val != want {
			r.Fail("full-stanza", "stanza-value", lines, fmt.Sprintf("the handler was handed the IQ value %+v, want %+v", *rec.calls[0].val, want))
		}
	}
}

// ---- a reader that fails in the middle of a stanza -------------------------------------

// cutDispatch hands HandleXMPP a reader that delivers the first cut tokens of the stanza (the
// start element is the first) and then fails with an error that is not io.EOF, on every call.
// The handlers of the children whose start tag arrived run and see what arrived; HandleXMPP
// must return the reader's error - also when handlers (errs) failed as well - and must not
// treat the torso as an empty stanza.
func (c *ctx) cutDispatch(ps []Pat, sx string, cons []int, cut int, errs []int, class string) {
	r := c.r
	toks, st, ok := elemToks(sx)
	if !ok || cut < 1 || cut >= len(toks) {
		return
	}
	kind := kindOfLocal(st.Name.Local)
	typ := specHdr(kind, st.Attr).typ
	line := strings.Join([]string{"cut", kind, field(typ), encPats(ps), common.EncToks(toks), encInts(cons), fmt.Sprint(cut)}, " ")
	lines := []string{r.Prop + " " + line, "#stanza " + common.HexS(sx)}
	rec := &recorder{cons: cons, errs: map[int]bool{}}
	for _, e := range errs {
		rec.errs[e] = true
	}
	m, p := buildFn(c08.NSClient, ps, rec, cut%2 == 0)
	if p != "" {
		r.Line(line, "BUILD-PANIC")
		return
	}
	fr := &framedReader{toks: toks[1:cut], framing: "fail"}
	start := st.Copy()
	var herr error
	if pn := common.Recover(func() { herr = m.HandleXMPP(fr, &start) }); pn != "" {
		r.Line(line, "PANIC")
		r.Fail("no-panic", "panic", lines, pn)
		return
	}
	res := "|other"
	switch {
	case herr == errBoom || (herr != nil && len(errs) > 0 && errList.MatchString(herr.Error())):
		// (which of the two errors is reported when handlers failed as well is the implementation's choice)
		res = "|fail"
	case herr == nil:
		res = "|nil"
	}
	r.Line(line, encCalls(rec.calls)+res)
	r.Case(line, len(rec.calls) > 0, fmt.Sprintf("%s/cut-%s/%d", class, kind, len(rec.calls)))
	if res != "|fail" {
		r.Fail("dispatch-ok", "reader-error-lost", lines, fmt.Sprintf("the reader failed after %d of %d tokens; HandleXMPP returned %v", cut, len(toks), herr))
	}
	arrived := toks[:cut]
	var want []*Pat
	depth := 0
	for _, t := range arrived[1:] {
		switch tt := t.(type) {
		case xml.StartElement:
			if depth == 0 {
				if b := best(ps, kind, typ, tt.Name); b != nil {
					want = append(want, b)
				}
			}
			depth++
		case xml.EndElement:
			depth--
		}
	}
	if len(want) != len(rec.calls) {
		r.Fail("most-specific", "cut-count", lines, fmt.Sprintf("%d handlers ran for the %d tokens that arrived, want %d", len(rec.calls), cut, len(want)))
		return
	}
	for i, cl := range rec.calls {
		if cl.pat != *want[i] {
			r.Fail("most-specific", "cut-child-handler", lines, fmt.Sprintf("call %d went to %s, want %s", i, cl.pat.Enc(), want[i].Enc()))
		}
		n := 0
		if i < len(cons) {
			n = cons[i]
		}
		wt := arrived
		if n < len(wt) {
			wt = wt[:n]
		}
		if common.EncToks(cl.toks) != common.EncToks(wt) {
			r.Fail("full-stanza", "cut-view", lines, fmt.Sprintf("call %d read %s, want %s", i, common.EncToks(cl.toks), common.EncToks(wt)))
		}
	}
}

// ---- generators -------------------------------------------------------------------

func (c *ctx) runE() {
	r := c.r
	rnd := r.Rnd
	q := xml.Name{Space: "urn:a", Local: "x"}
	// (1) every construction x the namespace given to New x element names over {stanza
	// namespaces, another namespace, none} x {iq, message, presence, x} x a top-level pattern
	// competing with the stanza routers (none, the element's namespace alone, the bare wildcard,
	// an exact foreign name, a local name) x with / without a child
	base := []Pat{
		{Kind: "m", Typ: "normal", Name: xml.Name{}}, {Kind: "m", Typ: "chat", Name: q},
		{Kind: "p", Typ: "", Name: xml.Name{}}, {Kind: "p", Typ: "unavailable", Name: xml.Name{Space: "urn:a"}},
		{Kind: "i", Typ: "get", Name: q}, {Kind: "i", Typ: "result", Name: xml.Name{}},
	}
	elemNS := []string{c08.NSClient, c08.NSServer, "jabber:component:accept", "urn:a", ""}
	for ci, ctor := range ctors {
		nss := []string{"", c08.NSClient, c08.NSServer}
		if ctor == "zero" || ctor == "value" {
			nss = []string{""}
		}
		for ni, ns := range nss {
			for ei, ens := range elemNS {
				for li, local := range []string{"iq", "message", "presence", "x"} {
					tops := [][]Pat{nil, {{Kind: "t", Name: xml.Name{Space: ens}}}, {{Kind: "t", Name: xml.Name{}}},
						{{Kind: "t", Name: q}, {Kind: "t", Name: xml.Name{Space: "urn:zz"}}}, {{Kind: "t", Name: xml.Name{Local: "x"}}}}
					for ti, top := range tops {
						if r.Quick() && ti > 0 && (ci+ni+ei+li+ti)%2 == 1 {
							continue
						}
						ps := append(append([]Pat(nil), base...), top...)
						var typs []string
						switch local {
						case "iq":
							typs = []string{"get", "set", "result"}
						case "message":
							typs = []string{"", "chat"}
						case "presence":
							typs = []string{"", "unavailable"}
						default:
							typs = []string{""}
						}
						for yi, typ := range typs {
							ta := ""
							if typ != "" {
								ta = ` type="` + typ + `"`
							}
							inner := `<x xmlns="urn:a"/>`
							if local != "iq" && (yi+ti+ei)%3 == 0 {
								inner = ""
							}
							sx := "<" + local + ` xmlns="` + ens + `"` + ta + ` id="e1" from="a@example.org/r">` + inner + "</" + local + ">"
							c.elem(ctor, ns, ps, sx, []int{2, 9}, "ctor")
						}
					}
				}
			}
		}
	}
	// redispatch: the general patterns are registered, the element is dispatched, the specific ones
	// are registered, the element is dispatched again — every kind, both orders
	gen := []Pat{{Kind: "m", Typ: "chat", Name: xml.Name{}}, {Kind: "p", Typ: "", Name: xml.Name{}}, {Kind: "i", Typ: "get", Name: xml.Name{}}, {Kind: "t", Name: xml.Name{Space: "urn:a"}}}
	spec := []Pat{{Kind: "m", Typ: "chat", Name: q}, {Kind: "p", Typ: "", Name: xml.Name{Local: "x"}}, {Kind: "i", Typ: "get", Name: q}, {Kind: "t", Name: q}}
	for _, sx := range []string{`<message type="chat"><x xmlns="urn:a"/><y xmlns="urn:b"/></message>`, `<presence><x xmlns="urn:a"/></presence>`,
		`<iq type="get" id="e3"><x xmlns="urn:a"/></iq>`, `<iq type="set" id="e3"><x xmlns="urn:a"/></iq>`, `<x xmlns="urn:a"/>`, `<message type="chat"/>`} {
		c.elem("redis", c08.NSClient, append(append([]Pat(nil), gen...), spec...), sx, []int{2, 9}, "redispatch")
		c.elem("redis", c08.NSClient, append(append([]Pat(nil), spec...), gen...), sx, []int{2, 9}, "redispatch")
		c.elem("redis", "", append(append([]Pat(nil), gen[:3]...), spec...), sx, []int{0}, "redispatch")
	}
	// random: random tables of all four kinds, random construction
	ne := r.Pick(600, 8000)
	for i := 0; i < ne; i++ {
		ctor := append(ctors, "redis", "redis")[rnd.Intn(6)]
		ns := []string{"", c08.NSClient, c08.NSServer}[rnd.Intn(3)]
		var ps []Pat
		for _, k := range []string{"t", "i", "m", "p"} {
			for _, p := range universe(k, typesOf[k][0]) {
				if rnd.Chance(1, 5) {
					ps = append(ps, p)
				}
			}
		}
		for _, nm := range []xml.Name{{Space: c08.NSClient}, {Space: c08.NSServer}, {Space: "jabber:component:accept"}} {
			if rnd.Chance(1, 8) {
				ps = append(ps, Pat{Kind: "t", Name: nm})
			}
		}
		local := []string{"iq", "message", "presence", "x", "y"}[rnd.Intn(5)]
		ens := elemNS[rnd.Intn(len(elemNS))]
		ta := ""
		if k := kindOfLocal(local); k != "" && rnd.Chance(1, 2) {
			ta = ` type="` + typesOf[k][0] + `"`
			if k == "p" {
				ta = ""
			}
		} else if local == "iq" {
			ta = ` type="set"`
		}
		inner := []string{`<x xmlns="urn:a"/>`, `<y xmlns="urn:b"/><x xmlns="urn:a"/>`, `<x xmlns="urn:b">t</x>`}[rnd.Intn(3)]
		c.elem(ctor, ns, ps, "<"+local+` xmlns="`+ens+`"`+ta+` id="e2">`+inner+"</"+local+">", []int{rnd.Intn(4), rnd.Intn(9)}, "ctor-random")
	}

	// (2) overlapping dispatches: stanza B through the same multiplexer while a handler of stanza
	// A is running, after 0..3 earlier dispatches; every handler ordinal of A x how far it had read
	ovPs := []Pat{{Kind: "m", Typ: "chat", Name: xml.Name{}}, {Kind: "m", Typ: "chat", Name: q}, {Kind: "p", Typ: "unavailable", Name: xml.Name{}},
		{Kind: "p", Typ: "", Name: xml.Name{Space: "urn:b"}}, {Kind: "m", Typ: "normal", Name: xml.Name{Local: "y"}},
		{Kind: "i", Typ: "get", Name: xml.Name{Space: "urn:a"}}, {Kind: "i", Typ: "set", Name: xml.Name{Local: "q"}}}
	as := []string{
		`<iq id="A" type="get" from="a@example.org/r"><x xmlns="urn:a"><i/>t</x>tail</iq>`,
		`<message id="A" type="chat"><first xmlns="urn:c"/><x xmlns="urn:a">t</x><second xmlns="urn:c"/></message>`,
		`<message id="A" type="chat"><x xmlns="urn:a"/></message>`,
		`<presence id="A" type="unavailable"><c xmlns="urn:b"/>  <x xmlns="urn:a"><i/></x><z xmlns="urn:c"/></presence>`,
		`<message id="A" type="chat"/>`,
	}
	bs := []string{
		`<iq id="B" type="set" from="b@example.net"><q xmlns="urn:d">text<j/></q></iq>`,
		`<iq id="B" type="get" to="c@example.org"><unknown xmlns="urn:zz"/></iq>`,
		`<message id="B" type="chat"><third xmlns="urn:c"/><x xmlns="urn:a"/></message>`,
		`<presence id="B" type="unavailable"><q xmlns="urn:d">text</q></presence>`,
		`<message id="B" type="chat"/>`,
		`<message id="B" type="chat">` + strings.Repeat(`<x xmlns="urn:a">u</x>`, 9) + `</message>`,
	}
	for mi, mode := range []string{"nest", "conc", "conc2"} {
		for warm := 0; warm <= 3; warm++ {
			for ai, ax := range as {
				for bi, bx := range bs {
					for at := 0; at < 3; at++ {
						for _, pre := range []int{0, 2, 99} {
							if r.Quick() && (mi+warm+ai+bi+at+pre)%3 != 0 {
								continue
							}
							c.overlap(mode, warm, ovPs, ax, []int{99, 99, 99}, at, pre, bx, []int{99, 3, 99, 1, 99, 0, 99, 99, 99}, "overlap")
						}
					}
				}
			}
		}
	}
	no := r.Pick(300, 4000)
	for i := 0; i < no; i++ {
		mode := []string{"nest", "conc", "conc2"}[rnd.Intn(3)]
		la, lb := []string{"message", "presence"}[rnd.Intn(2)], []string{"message", "presence"}[rnd.Intn(2)]
		ax, na := genStanza(rnd, la, attrOfKind(la))
		bx, nb := genStanza(rnd, lb, attrOfKind(lb))
		ax = strings.Replace(strings.Replace(ax, ` id="s1"`, "", 1), "<"+la, "<"+la+` id="A"`, 1)
		bx = strings.Replace(strings.Replace(bx, ` id="s1"`, "", 1), "<"+lb, "<"+lb+` id="B"`, 1)
		var ps []Pat
		for _, l := range []string{"message", "presence"} {
			k := kindOfLocal(l)
			ps = append(ps, Pat{Kind: k, Typ: attrOfKind(l), Name: xml.Name{}})
			for _, p := range universe(k, attrOfKind(l))[1:] {
				if rnd.Chance(1, 4) {
					ps = append(ps, p)
				}
			}
		}
		ca, cb := make([]int, 6), make([]int, 6)
		for k := range ca {
			ca[k], cb[k] = rnd.Intn(na+3), rnd.Intn(nb+3)
		}
		c.overlap(mode, rnd.Intn(4), ps, ax, ca, rnd.Intn(3), rnd.Intn(na+2), bx, cb, "overlap-random")
	}

	// (3) own addresses: valid and canonical, valid but rewritten by jid.Parse (case of the
	// domain), rejected, empty — as to, as from, on every kind, with matching and without
	// matching patterns; foreign attributes with rejected values must stay without effect
	addrVals := []string{"", "a@example.org/r", "A@EXAMPLE.org/R", "b@Example.NET", "@@", "a@/r", "x@example.org/", "example.org"}
	for ki, local := range []string{"message", "presence", "iq"} {
		kind := kindOfLocal(local)
		for ai, to := range addrVals {
			for bi, from := range addrVals {
				if r.Quick() && (ai+bi+ki)%2 == 1 && ai > 0 && bi > 0 {
					continue
				}
				typ := typesOf[kind][1]
				attrs := ` type="` + typ + `" id="s1"`
				if (ai+bi)%2 == 0 {
					attrs = ` xmlns:e="urn:ext" e:to="@@" e:from="a@/"` + attrs
				}
				if to != "" {
					attrs += ` to="` + to + `"`
				}
				if from != "" || (ai+bi)%3 == 0 {
					attrs += ` from="` + from + `"`
				}
				sx := "<" + local + attrs + `><x xmlns="urn:a"/><y xmlns="urn:b"/></` + local + ">"
				fr := []string{"sep", "eof"}[(ai+bi)%2]
				styp := attrType(kind, typ)
				if kind == "i" {
					styp = typ
				}
				c.addrDirect([]Pat{{Kind: kind, Typ: styp, Name: xml.Name{}}, {Kind: kind, Typ: styp, Name: q}}, sx, []int{3, 9}, fr, "addresses")
				c.addrDirect([]Pat{{Kind: kind, Typ: styp, Name: xml.Name{Space: "urn:zz"}}}, sx, []int{1}, fr, "addresses")
				if kind == "i" {
					for _, t2 := range []string{"get", "result", "error"} {
						c.addrDirect(nil, strings.Replace(sx, `type="`+typ+`"`, `type="`+t2+`"`, 1), nil, fr, "addresses")
					}
				}
			}
		}
	}

	// (4) a reader that fails in the middle of the stanza: every cut point of fixed stanzas x
	// consumption amounts (also: some handlers fail too - the reader's error still wins), random
	cutPs := []Pat{{Kind: "m", Typ: "chat", Name: xml.Name{}}, {Kind: "m", Typ: "chat", Name: q}, {Kind: "p", Typ: "", Name: xml.Name{}}, {Kind: "p", Typ: "", Name: xml.Name{Space: "urn:b"}}}
	for si, sx := range []string{
		`<message type="chat"/>`,
		`<message type="chat"><x xmlns="urn:a"/></message>`,
		`<message type="chat"><x xmlns="urn:a"><i/>t</x><y xmlns="urn:b"/>tail<z xmlns="urn:c"/></message>`,
		`<presence><c xmlns="urn:b"/>  <x xmlns="urn:a"><c xmlns="urn:b"/></x></presence>`,
		`<presence> </presence>`,
	} {
		n := strings.Count(sx, "<") + strings.Count(sx, "/>") + 3
		for cut := 1; cut < n; cut++ {
			for ci, cons := range [][]int{{0, 0, 0}, {99, 99, 99}, {2, 99, 1}, {99, 0, 3}} {
				var errs []int
				if (si+cut+ci)%3 == 0 {
					errs = []int{(cut + ci) % 2}
				}
				c.cutDispatch(cutPs, sx, cons, cut, errs, "cut")
			}
		}
	}
	nc := r.Pick(400, 6000)
	for i := 0; i < nc; i++ {
		local := []string{"message", "presence"}[rnd.Intn(2)]
		k := kindOfLocal(local)
		sx, ntok := genStanza(rnd, local, attrOfKind(local))
		ps := []Pat{{Kind: k, Typ: attrOfKind(local), Name: xml.Name{}}}
		for _, p := range universe(k, attrOfKind(local))[1:] {
			if rnd.Chance(1, 3) {
				ps = append(ps, p)
			}
		}
		cons := make([]int, 6)
		for j := range cons {
			cons[j] = rnd.Intn(ntok + 3)
		}
		c.cutDispatch(ps, sx, cons, 1+rnd.Intn(ntok), nil, "cut-random")
	}
}
