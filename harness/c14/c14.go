// Package c14 drives mux.ServeMux (property C14): lookup cascades, top-level
// routing, per-child dispatch with the replay buffer, registration.
//
// Protocol lines (see lean/XmppModel/Driver/C14.lean):
//
//	lookup <k> <typ> <name> <patterns>            -> <pattern> | none
//	route <stanzaNS> <name> <patterns>            -> h=<pattern> | router | nop
//	children <k> <typ> <patterns> <toks> <cons>   -> <pattern>=<toks read>/…
//	direct <sep|eof> <k> <typ> <patterns> <toks> <cons> <errs> -> …|err=<failed calls>|w=<handler writes received>
//	iqdirect <sep|eof> <typ> <patterns> <toks> <c> -> h=…@<payload>=<toks> | fallback@<to>/<from>/<id> | nothing | err
//	register <patterns> <pattern> <nil>           -> ok | panic
//	elem <ctor> <stanzaNS> <patterns> <toks> <cons> -> patterns of the handlers that ran | - | fallback@… | err   (elem.go)
//	overlap <mode> <warm> <patterns> <toksA> <consA> <at> <pre> <toksB> <consB> -> <dispatch A>&<dispatch B>      (elem.go)
//	cut <k> <typ> <patterns> <toks> <cons> <cut>  -> <calls>|fail                                                 (elem.go)
//	direct … <errs> <parsemap> / iqdirect … <c> <parsemap> -> addrerr / err when jid.Parse rejects an own address (elem.go)
//
// <typ> of children / direct / iqdirect is what the specification (specHdr) reads from the
// stanza's own, i.e. unqualified, attributes; the model reads the start element itself.
package c14

import (
	"encoding/xml"
	"fmt"
	"io"
	"regexp"
	"sort"
	"strings"

	"mellium.im/xmlstream"
	"mellium.im/xmpp"
	"mellium.im/xmpp/jid"
	"mellium.im/xmpp/mux"
	"mellium.im/xmpp/stanza"

	"verifharness/c08"
	"verifharness/common"
)

// Pat is a registered pattern: kind t|i|m|p, stanza type, payload / element name.
type Pat struct {
	Kind string
	Typ  string
	Name xml.Name
}

func hx(s string) string { return fmt.Sprintf("%x", s) }

func (p Pat) Enc() string {
	return p.Kind + ":" + hx(p.Typ) + ":" + hx(p.Name.Space) + ":" + hx(p.Name.Local)
}

func encPats(ps []Pat) string {
	s := make([]string, len(ps))
	for i, p := range ps {
		s[i] = p.Enc()
	}
	return common.Join(s, ",")
}

func encName(n xml.Name) string { return hx(n.Space) + ":" + hx(n.Local) }

func field(s string) string {
	if s == "" {
		return "-"
	}
	return hx(s)
}

// marker handlers: every registered handler knows its pattern and reports to a recorder
type recorder struct {
	cons     []int
	k        int
	calls    []call
	funcs    []marker // handlers registered through the Func variants
	lastFunc int
	errs     map[int]bool // which invoked registered handlers (by ordinal) return an error
	write    bool         // every invoked handler writes one token naming its ordinal to the encoder it was given
}

type call struct {
	payload xml.Name // IQ handlers: the payload start element they were given
	pat     Pat
	gen     int
	toks    []xml.Token
	eof     bool
	val     *hdr // the stanza value the handler was handed (type, id, to, from)
}

type marker struct {
	pat Pat
	rec *recorder
	gen int // which registration attempt created this handler (histories)
}

func (m marker) read(t xmlstream.TokenReadEncoder) error {
	c := 0
	ord := m.rec.k
	if m.rec.k < len(m.rec.cons) {
		c = m.rec.cons[m.rec.k]
	}
	var ret error
	if m.rec.errs[m.rec.k] {
		ret = fmt.Errorf("E%d", m.rec.k)
	}
	m.rec.k++
	cl := call{pat: m.pat, gen: m.gen}
	for i := 0; i < c; i++ {
		tok, err := t.Token()
		if tok != nil {
			cl.toks = append(cl.toks, xml.CopyToken(tok))
		}
		if err != nil {
			cl.eof = true
			break
		}
	}
	m.rec.calls = append(m.rec.calls, cl)
	if m.rec.write {
		if err := t.EncodeToken(xml.CharData(fmt.Sprintf("W%d", ord))); err != nil && ret == nil {
			ret = err
		}
	}
	return ret
}

func (m marker) HandleXMPP(t xmlstream.TokenReadEncoder, start *xml.StartElement) error {
	return m.read(t)
}
func (m marker) HandleIQ(iq stanza.IQ, t xmlstream.TokenReadEncoder, start *xml.StartElement) error {
	err := m.read(t)
	if len(m.rec.calls) > 0 {
		cl := &m.rec.calls[len(m.rec.calls)-1]
		if start != nil {
			cl.payload = start.Name
		}
		cl.val = &hdr{string(iq.Type), iq.ID, iq.To.String(), iq.From.String()}
	}
	return err
}
func (m marker) HandleMessage(msg stanza.Message, t xmlstream.TokenReadEncoder) error {
	err := m.read(t)
	m.rec.calls[len(m.rec.calls)-1].val = &hdr{string(msg.Type), msg.ID, msg.To.String(), msg.From.String()}
	return err
}
func (m marker) HandlePresence(p stanza.Presence, t xmlstream.TokenReadEncoder) error {
	err := m.read(t)
	m.rec.calls[len(m.rec.calls)-1].val = &hdr{string(p.Type), p.ID, p.To.String(), p.From.String()}
	return err
}

func optionOf(m marker) mux.Option {
	p := m.pat
	switch p.Kind {
	case "t":
		return mux.Handle(p.Name, m)
	case "i":
		return mux.IQ(stanza.IQType(p.Typ), p.Name, m)
	case "m":
		return mux.Message(stanza.MessageType(p.Typ), p.Name, m)
	}
	return mux.Presence(stanza.PresenceType(p.Typ), p.Name, m)
}

func option(p Pat, rec *recorder, nilHandler bool) mux.Option {
	m := marker{pat: p, rec: rec}
	switch p.Kind {
	case "t":
		if nilHandler {
			return mux.Handle(p.Name, nil)
		}
		return mux.Handle(p.Name, m)
	case "i":
		if nilHandler {
			return mux.IQ(stanza.IQType(p.Typ), p.Name, nil)
		}
		return mux.IQ(stanza.IQType(p.Typ), p.Name, m)
	case "m":
		if nilHandler {
			return mux.Message(stanza.MessageType(p.Typ), p.Name, nil)
		}
		return mux.Message(stanza.MessageType(p.Typ), p.Name, m)
	}
	if nilHandler {
		return mux.Presence(stanza.PresenceType(p.Typ), p.Name, nil)
	}
	return mux.Presence(stanza.PresenceType(p.Typ), p.Name, m)
}

// funcOption registers the marker through the Func variant of the option.
func funcOption(p Pat, rec *recorder, gen int) mux.Option {
	m := marker{pat: p, rec: rec, gen: gen}
	rec.funcs = append(rec.funcs, m)
	idx := len(rec.funcs) - 1
	switch p.Kind {
	case "t":
		return mux.HandleFunc(p.Name, func(t xmlstream.TokenReadEncoder, start *xml.StartElement) error {
			rec.lastFunc = idx
			return m.HandleXMPP(t, start)
		})
	case "i":
		return mux.IQFunc(stanza.IQType(p.Typ), p.Name, func(iq stanza.IQ, t xmlstream.TokenReadEncoder, start *xml.StartElement) error {
			rec.lastFunc = idx
			return m.HandleIQ(iq, t, start)
		})
	case "m":
		return mux.MessageFunc(stanza.MessageType(p.Typ), p.Name, func(msg stanza.Message, t xmlstream.TokenReadEncoder) error {
			rec.lastFunc = idx
			return m.HandleMessage(msg, t)
		})
	}
	return mux.PresenceFunc(stanza.PresenceType(p.Typ), p.Name, func(pr stanza.Presence, t xmlstream.TokenReadEncoder) error {
		rec.lastFunc = idx
		return m.HandlePresence(pr, t)
	})
}

// identify finds out which registered handler h is: a marker directly, or a Func-variant
// handler, which is invoked on an empty reader to see which closure runs.
func identify(h interface{}, rec *recorder) (marker, bool) {
	if mk, ok := h.(marker); ok {
		return mk, true
	}
	rec.lastFunc = -1
	before := len(rec.calls)
	er := &endReader{}
	common.Recover(func() {
		switch f := h.(type) {
		case mux.IQHandlerFunc:
			_ = f(stanza.IQ{}, er, &xml.StartElement{})
		case mux.MessageHandlerFunc:
			_ = f(stanza.Message{}, er)
		case mux.PresenceHandlerFunc:
			_ = f(stanza.Presence{}, er)
		case xmpp.HandlerFunc:
			if len(rec.funcs) > 0 {
				_ = probeTop(f, er, rec)
				// the stanza routers are HandlerFuncs too and may reach a message / presence
				// handler of ours: only a top-level marker identifies a top-level handler
				if rec.lastFunc >= 0 && rec.funcs[rec.lastFunc].pat.Kind != "t" {
					rec.lastFunc = -1
				}
			}
		}
	})
	rec.calls = rec.calls[:before]
	if rec.lastFunc >= 0 {
		return rec.funcs[rec.lastFunc], true
	}
	return marker{}, false
}

func probeTop(f xmpp.HandlerFunc, er *endReader, rec *recorder) error {
	return f(er, &xml.StartElement{Name: xml.Name{Space: "urn:probe", Local: "probe"}})
}

// nilFuncOption registers a nil func through the Func variants.
func nilFuncOption(p Pat) mux.Option {
	switch p.Kind {
	case "t":
		return mux.HandleFunc(p.Name, nil)
	case "i":
		return mux.IQFunc(stanza.IQType(p.Typ), p.Name, nil)
	case "m":
		return mux.MessageFunc(stanza.MessageType(p.Typ), p.Name, nil)
	}
	return mux.PresenceFunc(stanza.PresenceType(p.Typ), p.Name, nil)
}

func build(ns string, ps []Pat, rec *recorder) (m *mux.ServeMux, panicked string) {
	return buildFn(ns, ps, rec, false)
}

// buildFn registers through the Func variants of the options (the adapters of mux/stanza.go)
// when fn is set.
func buildFn(ns string, ps []Pat, rec *recorder, fn bool) (m *mux.ServeMux, panicked string) {
	panicked = common.Recover(func() {
		opts := make([]mux.Option, len(ps))
		for i, p := range ps {
			if fn {
				opts[i] = funcOption(p, rec, 0)
			} else {
				opts[i] = option(p, rec, false)
			}
		}
		m = mux.New(ns, opts...)
	})
	return m, panicked
}

// ---- the specification, written independently of the cascade ---------------------

func matches(p, n xml.Name) bool {
	return (p.Space == "" || p.Space == n.Space) && (p.Local == "" || p.Local == n.Local)
}

func rank(p xml.Name) int {
	r := 0
	if p.Space == "" {
		r++
	}
	if p.Local == "" {
		r += 2
	}
	return r
}

// best returns the most specific registered pattern of the kind and type that matches n.
func best(ps []Pat, kind, typ string, n xml.Name) *Pat {
	var b *Pat
	for i, p := range ps {
		if p.Kind != kind || p.Typ != typ || !matches(p.Name, n) {
			continue
		}
		if kind == "t" && p.Name == (xml.Name{}) && n.Space != "" && n.Local != "" {
			// the top-level table is never consulted with the bare wildcard
			continue
		}
		if b == nil || rank(p.Name) < rank(b.Name) {
			b = &ps[i]
		}
	}
	return b
}

type ctx struct {
	r    *common.Run
	nerr int
}

func (c *ctx) lookup(ps []Pat, kind, typ string, n xml.Name, class string) {
	r := c.r
	line := strings.Join([]string{"lookup", kind, field(typ), encName(n), encPats(ps)}, " ")
	lines := []string{r.Prop + " " + line}
	rec := &recorder{}
	m, p := build(c08.NSClient, ps, rec)
	if p != "" {
		r.Line(line, "BUILD-PANIC")
		r.Fail("register-refuse", "unexpected-panic", lines, p)
		return
	}
	var got interface{}
	var ok bool
	switch kind {
	case "t":
		got, ok = m.Handler(n)
	case "i":
		got, ok = m.IQHandler(stanza.IQType(typ), n)
	case "m":
		got, ok = m.MessageHandler(stanza.MessageType(typ), n)
	case "p":
		got, ok = m.PresenceHandler(stanza.PresenceType(typ), n)
	}
	obs := "none"
	var gp *Pat
	if mk, isM := got.(marker); isM {
		obs = mk.pat.Enc()
		gp = &mk.pat
	} else if ok && kind == "t" {
		obs = "none" // a stanza router: no registered top-level pattern matched
	}
	if got == nil {
		r.Fail("most-specific", "nil-handler", lines, "lookup returned a nil handler")
	}
	if kind != "t" && ok != (gp != nil) {
		// the second result says whether a registered handler was found
		obs += "/ok=" + common.B(ok)
		r.Fail("most-specific", "ok-flag/"+kind, lines, fmt.Sprintf("the lookup returned ok=%v with the handler %s", ok, obs))
	}
	r.Line(line, obs)
	want := best(ps, kind, typ, n)
	r.Case(line, want != nil, fmt.Sprintf("%s/lookup-%s/%v", class, kind, want != nil))
	switch {
	case want == nil && gp != nil:
		r.Fail("most-specific", "spurious/"+kind, lines, fmt.Sprintf("handler of %s ran the lookup although no pattern of its kind and type matches", gp.Enc()))
	case want != nil && gp == nil:
		r.Fail("most-specific", "missed/"+kind, lines, fmt.Sprintf("no handler found, want %s", want.Enc()))
	case want != nil && rank(gp.Name) != rank(want.Name):
		r.Fail("most-specific", fmt.Sprintf("order/%s/%d-before-%d", kind, rank(gp.Name), rank(want.Name)), lines, fmt.Sprintf("got %s, the most specific match is %s", gp.Enc(), want.Enc()))
	case want != nil && (gp.Kind != kind || gp.Typ != typ):
		r.Fail("kind-type-isolated", "foreign/"+kind, lines, fmt.Sprintf("got %s", gp.Enc()))
	}
}

func (c *ctx) route(ps []Pat, stanzaNS string, n xml.Name, class string) {
	r := c.r
	line := strings.Join([]string{"route", field(stanzaNS), encName(n), encPats(ps)}, " ")
	rec := &recorder{}
	m, p := build(stanzaNS, ps, rec)
	if p != "" {
		r.Line(line, "BUILD-PANIC")
		return
	}
	h, ok := m.Handler(n)
	obs := "nop"
	if mk, isM := h.(marker); isM {
		obs = "h=" + mk.pat.Enc()
	} else if ok {
		obs = "router"
	}
	r.Line(line, obs)
	r.Case(line, obs != "nop", class+"/route/"+strings.SplitN(obs, "=", 2)[0])
}

// hdr is what the multiplexer may learn from a stanza's start element.
type hdr struct{ typ, id, to, from string }

// specHdr is the specification of stanza.NewIQ / NewMessage / NewPresence as far as the
// multiplexer depends on them, written independently of their attribute loop: only the
// stanza's OWN attributes count, and those are the unqualified ones (Namespaces in XML 6.2: a
// prefixed attribute is another attribute, whatever its prefix is bound to).  A message's type
// is one of the five declared ones, anything else (or no attribute) means normal; IQ and
// presence types are taken verbatim.  (Two unqualified attributes of one name are not
// well-formed XML; the direct runs contain them, the later one counts.)
func specHdr(kind string, attrs []xml.Attr) hdr {
	own := map[string]string{}
	for _, a := range attrs {
		if a.Name.Space == "" && (a.Value != "" || a.Name.Local == "type" || a.Name.Local == "id") {
			own[a.Name.Local] = a.Value
		}
	}
	h := hdr{typ: own["type"], id: own["id"], to: own["to"], from: own["from"]}
	if kind == "m" {
		switch h.typ {
		case "normal", "chat", "error", "groupchat", "headline":
		default:
			h.typ = "normal"
		}
	}
	return h
}

// framedReader hands out a fixed token list.  framing "sep" reports io.EOF on a separate call
// after the last token, "eof" returns the last token together with io.EOF (encoding/xml allows
// both for a TokenReader; xmlstream.Token and xmlstream.MultiReader do the latter).
var errList = regexp.MustCompile(`^E[0-9]+(, E[0-9]+)*$`)

type framedReader struct {
	toks    []xml.Token
	i       int
	framing string
	wrote   int
	out     []xml.Token // tokens written through EncodeToken
	other   int         // writes through Encode / EncodeElement
}

var errBoom = fmt.Errorf("reader failed")

func (f *framedReader) Token() (xml.Token, error) {
	if f.i >= len(f.toks) {
		if f.framing == "fail" {
			// a reader whose connection broke: the same error on every further call
			return nil, errBoom
		}
		return nil, io.EOF
	}
	t := f.toks[f.i]
	f.i++
	if f.i == len(f.toks) && f.framing == "eof" {
		return t, io.EOF
	}
	return t, nil
}
func (f *framedReader) EncodeToken(t xml.Token) error {
	f.wrote++
	f.out = append(f.out, xml.CopyToken(t))
	return nil
}
func (f *framedReader) Encode(interface{}) error                          { f.wrote++; f.other++; return nil }
func (f *framedReader) EncodeElement(interface{}, xml.StartElement) error { f.wrote++; f.other++; return nil }

// handlerWrites splits what was written into the ordinals the marker handlers wrote (one
// CharData token "W<k>" each) and everything else.
func (f *framedReader) handlerWrites() (ords []int, rest []xml.Token) {
	for _, t := range f.out {
		if cd, ok := t.(xml.CharData); ok && len(cd) > 1 && cd[0] == 'W' {
			var k int
			if _, err := fmt.Sscan(string(cd[1:]), &k); err == nil {
				ords = append(ords, k)
				continue
			}
		}
		rest = append(rest, t)
	}
	return ords, rest
}

// fallbackReply recognises the default reply to an unhandled IQ among the tokens written: one
// iq element of type error holding one error element of type cancel with the condition
// service-unavailable.  It returns the reply's own header.
func fallbackReply(out []xml.Token) (hdr, bool) {
	if len(out) < 6 {
		return hdr{}, false
	}
	iq, ok := out[0].(xml.StartElement)
	if !ok || iq.Name.Local != "iq" {
		return hdr{}, false
	}
	// exactly one error element of type cancel with the condition service-unavailable; whatever
	// else a reply may legally carry (the request's payload, a text, an application condition) is
	// tolerated
	depth, errs, conds, inErr := 0, 0, 0, false
	for i, t := range out {
		switch tt := t.(type) {
		case xml.StartElement:
			switch {
			case depth == 1 && tt.Name.Local == "error":
				errs++
				inErr = specHdr("i", tt.Attr).typ == "cancel"
			case depth == 2 && inErr && tt.Name == (xml.Name{Space: "urn:ietf:params:xml:ns:xmpp-stanzas", Local: "service-unavailable"}):
				conds++
			}
			depth++
		case xml.EndElement:
			depth--
			if depth == 1 {
				inErr = false
			}
			if depth == 0 && i != len(out)-1 {
				return hdr{}, false
			}
		}
	}
	if depth != 0 || errs != 1 || conds != 1 {
		return hdr{}, false
	}
	return specHdr("i", iq.Attr), true
}

func encInts(v []int) string {
	cs := make([]string, len(v))
	for i, x := range v {
		cs[i] = fmt.Sprint(x)
	}
	return common.Join(cs, ",")
}

// children sends one message / presence stanza to the multiplexer in every mode: through a
// real session, and directly (HandleXMPP on a token reader) with both end-of-input framings.
func (c *ctx) children(ps []Pat, stanzaXML string, cons []int, class string) {
	c.dispatch(ps, stanzaXML, cons, nil, "session", class)
	if strings.Count(stanzaXML, "<") > 6000 {
		// the call-by-call model of the replay buffer appends token by token (quadratic in the
		// driver): the largest stanzas go through the session only
		return
	}
	c.dispatch(ps, stanzaXML, cons, nil, "sep", class)
	c.dispatch(ps, stanzaXML, cons, nil, "eof", class)
	// some of the invoked handlers fail: every later child is still dispatched, the failed
	// calls are reported
	c.nerr++
	var errs []int
	switch c.nerr % 4 {
	case 0:
		errs = []int{0}
	case 1:
		errs = []int{1}
	case 2:
		errs = []int{0, 2, 3}
	default:
		for k := 0; k < len(cons) && k < 40; k++ {
			if (c.nerr/4+k)%3 == 0 {
				errs = append(errs, k)
			}
		}
	}
	c.dispatch(ps, stanzaXML, cons, errs, []string{"sep", "eof"}[(c.nerr/2)%2], class+"-errs")
}

// dispatch sends one message / presence stanza to the multiplexer and compares which handlers
// ran and what each read.  mode "session": through a real session whose handler is the mux;
// "sep" / "eof": HandleXMPP is called directly on a framedReader of that framing, and the
// invoked registered handlers whose ordinal is in errs return an error.
func (c *ctx) dispatch(ps []Pat, stanzaXML string, cons []int, errs []int, mode string, class string) {
	r := c.r
	ns := c08.NSClient
	body := []byte(stanzaXML + "</stream:stream>")
	toks := c08.Tokens(ns, body)
	if len(toks) < 2 {
		return
	}
	st, ok := toks[0].(xml.StartElement)
	if !ok {
		return
	}
	kind := "m"
	if st.Name.Local == "presence" {
		kind = "p"
	}
	typ := specHdr(kind, st.Attr).typ
	stanzaToks := toks[:len(toks)-1]
	var line string
	if mode == "session" {
		line = strings.Join([]string{"children", kind, field(typ), encPats(ps), common.EncToks(stanzaToks), encInts(cons)}, " ")
	} else {
		line = strings.Join([]string{"direct", mode, kind, field(typ), encPats(ps), common.EncToks(stanzaToks), encInts(cons), encInts(errs)}, " ")
		class += "-" + mode
	}
	lines := []string{r.Prop + " " + line, "#stanza " + common.HexS(stanzaXML)}
	rec := &recorder{cons: cons, errs: map[int]bool{}, write: mode != "session"}
	for _, e := range errs {
		rec.errs[e] = true
	}
	var wroteOrds []int
	// the direct runs over a "sep" reader register through the Func variants of the options
	m, p := buildFn(ns, ps, rec, mode == "sep")
	if p != "" {
		r.Line(line, "BUILD-PANIC")
		return
	}
	var res c08.Result
	errObs := ""
	if mode == "session" {
		res = c08.Serve(ns, c08.LocalJID, c08.RemoteJID, body, nil, func(xmpp.Handler) xmpp.Handler { return m })
	} else {
		fr := &framedReader{toks: stanzaToks[1:], framing: mode}
		start := st.Copy()
		var herr error
		res.Panic = common.Recover(func() { herr = m.HandleXMPP(fr, &start) })
		switch {
		case herr == nil:
			errObs = "|err=-"
		case errList.MatchString(herr.Error()):
			errObs = "|err=" + strings.ReplaceAll(strings.ReplaceAll(herr.Error(), ", ", ","), "E", "")
		default:
			errObs = "|err=other"
			res.Err = herr
		}
		// every invoked handler writes one token to the encoder it was handed: all of them must
		// arrive, in the order of the calls, at the encoder HandleXMPP was given
		var rest []xml.Token
		wroteOrds, rest = fr.handlerWrites()
		errObs += "|w=" + encInts(wroteOrds)
		if len(rest) > 0 || fr.other > 0 {
			errObs += "|wrote"
		}
	}
	if res.Panic != "" || res.Stall {
		r.Line(line, "PANIC-OR-STALL")
		r.Fail("no-panic", "panic", lines, res.Panic)
		return
	}
	var obs []string
	for _, cl := range rec.calls {
		obs = append(obs, cl.pat.Enc()+"="+common.EncToks(cl.toks))
	}
	r.Line(line, common.Join(obs, "/")+errObs)
	r.Case(line, len(rec.calls) > 0, fmt.Sprintf("%s/children-%s/%d", class, kind, len(rec.calls)))

	// ---- property clauses ------------------------------------------------------------
	fail := func(clause, key, detail string) { r.Fail(clause, key, lines, detail) }
	if mode != "session" {
		if res.Err != nil {
			fail("dispatch-ok", "dispatch-error/"+mode, fmt.Sprintf("HandleXMPP returned %v", res.Err))
			return
		}
	} else if cls := c08.ErrClass(res.Err); cls != "clean" {
		fail("dispatch-ok", "serve-error", fmt.Sprintf("Serve ended with %s (%v)", cls, res.Err))
		return
	}
	// expected handlers: one per child element, the most specific match of the stanza's
	// kind and type; for a stanza without children (start and end tag only) the wildcard
	var want []*Pat
	depth := 0
	nchild := 0
	for _, t := range stanzaToks[1:] {
		switch tt := t.(type) {
		case xml.StartElement:
			if depth == 0 {
				nchild++
				if b := best(ps, kind, typ, tt.Name); b != nil {
					want = append(want, b)
				}
			}
			depth++
		case xml.EndElement:
			depth--
		}
	}
	if len(stanzaToks) == 2 {
		if b := best(ps, kind, typ, xml.Name{}); b != nil {
			want = append(want, b)
		}
	}
	if len(want) != len(rec.calls) {
		key := "count"
		if len(stanzaToks) == 2 {
			key = "empty-stanza"
		}
		fail("most-specific", key, fmt.Sprintf("%d handlers ran, want %d", len(rec.calls), len(want)))
		return
	}
	if mode != "session" {
		okW := len(wroteOrds) == len(rec.calls)
		for i, k := range wroteOrds {
			okW = okW && k == i
		}
		if !okW {
			fail("encoder", "handler-writes", fmt.Sprintf("the %d invoked handlers each wrote a token to their encoder, the encoder of HandleXMPP received those of %v", len(rec.calls), wroteOrds))
		}
	}
	wantVal := specHdr(kind, st.Attr)
	for i, cl := range rec.calls {
		// the stanza value handed to the handler is the stanza's own header
		if cl.val != nil && *cl.val != wantVal {
			fail("full-stanza", "stanza-value", fmt.Sprintf("call %d was handed the stanza value %+v, the stanza's own attributes say %+v", i, *cl.val, wantVal))
		}
		if cl.pat != *want[i] {
			fail("most-specific", "child-handler", fmt.Sprintf("call %d went to %s, want %s", i, cl.pat.Enc(), want[i].Enc()))
		}
		// the handler reads the complete stanza from its start element
		n := 0
		if i < len(cons) {
			n = cons[i]
		}
		wantToks := stanzaToks
		if n < len(wantToks) {
			wantToks = wantToks[:n]
		}
		if common.EncToks(cl.toks) != common.EncToks(wantToks) {
			fail("full-stanza", "view", fmt.Sprintf("call %d read %s, want %s", i, common.EncToks(cl.toks), common.EncToks(wantToks)))
		}
	}
}

// iqDefault sends one IQ of the given type with payload n through a real session whose
// handler is the multiplexer: either a registered handler runs, or the fallback answers
// (service-unavailable error with the request's id) or nothing is written.
func (c *ctx) iqDefault(ps []Pat, typ string, n xml.Name, class string) {
	r := c.r
	ns := c08.NSClient
	line := strings.Join([]string{"iqdefault", field(typ), encName(n), encPats(ps)}, " ")
	lines := []string{r.Prop + " " + line}
	rec := &recorder{}
	m, p := build(ns, ps, rec)
	if p != "" {
		r.Line(line, "BUILD-PANIC")
		return
	}
	pl := "<" + n.Local + ` xmlns="` + n.Space + `"/>`
	ta := ` type="` + typ + `"`
	if typ == "" {
		ta = ""
	}
	body := []byte(`<iq` + ta + ` id="d1" from="a@example.org/r">` + pl + `</iq></stream:stream>`)
	res := c08.Serve(ns, c08.LocalJID, c08.RemoteJID, body, nil, func(xmpp.Handler) xmpp.Handler { return m })
	if res.Panic != "" || res.Stall {
		r.Line(line, "PANIC-OR-STALL")
		r.Fail("no-panic", "panic", lines, res.Panic)
		return
	}
	els, _, _ := c08.Written(ns, res.Out)
	obs := "nothing"
	switch {
	case len(rec.calls) > 0:
		obs = "h=" + rec.calls[0].pat.Enc()
	case len(els) > 0:
		obs = "wrote"
		if len(els) == 1 && els[0].Local == "iq" && els[0].Typ == "error" && els[0].ID == "d1" && els[0].SU && els[0].To == "a@example.org/r" {
			obs = "fallback"
		}
	}
	r.Line(line, obs)
	want := best(ps, "i", typ, n)
	r.Case(line, true, class+"/iqdefault/"+strings.SplitN(obs, "=", 2)[0])
	request := typ != "result" && typ != "error"
	switch {
	case want != nil && (len(rec.calls) != 1 || rank(rec.calls[0].pat.Name) != rank(want.Name)):
		r.Fail("most-specific", "iq-dispatch", lines, fmt.Sprintf("observed %s, want the handler of %s", obs, want.Enc()))
	case want != nil && !request && len(els) > 0:
		// (for a request the session itself answers when the marker handler wrote nothing: C07)
		r.Fail("defaults", "reply-besides-handler", lines, "an element was written although a handler ran for a reply IQ")
	case want == nil && request && obs != "fallback":
		r.Fail("defaults", "request-unanswered", lines, fmt.Sprintf("unhandled %s IQ: observed %s, want one service-unavailable error", typ, obs))
	case want == nil && !request && obs != "nothing":
		r.Fail("defaults", "reply-answered", lines, fmt.Sprintf("unhandled %s IQ: observed %s, want nothing", typ, obs))
	}
}

// iqDirect calls HandleXMPP with one IQ stanza on a reader of the given framing: which handler
// runs, which payload start element it is given and what it can read (the rest of the IQ's
// content, never the IQ's end element), or the fallback reply / nothing / an error.
func (c *ctx) iqDirect(ps []Pat, typ, inner string, cons int, framing, class string) {
	ta := ` type="` + typ + `"`
	if typ == "" {
		ta = ""
	}
	c.iqDirectX(ps, `<iq`+ta+` id="d1" from="a@example.org/r">`+inner+`</iq>`, cons, framing, class)
}

// iqDirectX is iqDirect on a complete IQ stanza: the type, the id and the addresses are those
// of the stanza's own attributes (specHdr).
func (c *ctx) iqDirectX(ps []Pat, sx string, cons int, framing, class string) {
	r := c.r
	ns := c08.NSClient
	toks := c08.Tokens(ns, []byte(sx+"</stream:stream>"))
	if len(toks) < 3 {
		return
	}
	st, ok := toks[0].(xml.StartElement)
	if !ok {
		return
	}
	req := specHdr("i", st.Attr)
	typ := req.typ
	stanzaToks := toks[:len(toks)-1]
	line := strings.Join([]string{"iqdirect", framing, field(typ), encPats(ps), common.EncToks(stanzaToks), fmt.Sprint(cons)}, " ")
	lines := []string{r.Prop + " " + line, "#iq " + common.HexS(sx)}
	rec := &recorder{cons: []int{cons}, write: true}
	m, p := buildFn(ns, ps, rec, framing == "sep")
	if p != "" {
		r.Line(line, "BUILD-PANIC")
		return
	}
	fr := &framedReader{toks: stanzaToks[1:], framing: framing}
	start := st.Copy()
	var herr error
	if pn := common.Recover(func() { herr = m.HandleXMPP(fr, &start) }); pn != "" {
		r.Line(line, "PANIC")
		r.Fail("no-panic", "panic", lines, pn)
		return
	}
	obs := "nothing"
	ords, written := fr.handlerWrites()
	reply, isReply := fallbackReply(written)
	switch {
	case len(rec.calls) > 0:
		cl := rec.calls[0]
		obs = "h=" + cl.pat.Enc() + "@" + encName(cl.payload) + "=" + common.EncToks(cl.toks)
		if len(ords) != 1 || ords[0] != 0 || len(written) > 0 || fr.other > 0 {
			obs += "|WRITES"
			r.Fail("encoder", "iq-handler-writes", lines, fmt.Sprintf("the handler wrote one token to its encoder, the encoder of HandleXMPP received %v and %d other tokens", ords, len(written)+fr.other))
		}
	case herr != nil:
		obs = "err"
	case isReply && reply.typ == "error" && fr.other == 0:
		// the default reply: addressed back to the sender, with the request's id
		obs = "fallback@" + hx(reply.to) + "/" + hx(reply.from) + "/" + hx(reply.id)
	case fr.wrote > 0:
		obs = "wrote"
	}
	r.Line(line, obs)
	r.Case(line, len(rec.calls) > 0, class+"/iqdirect-"+framing+"/"+strings.FieldsFunc(obs+"=", func(c rune) bool { return c == '=' || c == '@' })[0])
	// the specification: the first child element is the payload; the most specific pattern of
	// the IQ's type for its name; the handler reads the content after the payload's start tag
	var inTok []xml.Token
	for _, t := range stanzaToks[1 : len(stanzaToks)-1] {
		if cd, isCD := t.(xml.CharData); isCD && len(inTok) == 0 && strings.TrimLeft(string(cd), " \n\r\t") == "" {
			continue
		}
		inTok = append(inTok, t)
	}
	if len(inTok) == 0 {
		return
	}
	ps0, isStart := inTok[0].(xml.StartElement)
	if !isStart {
		if len(rec.calls) > 0 {
			r.Fail("most-specific", "iq-no-payload", lines, "a handler ran for an IQ whose first content is not an element")
		}
		return
	}
	want := best(ps, "i", typ, ps0.Name)
	request := typ != "result" && typ != "error"
	switch {
	case want != nil && (len(rec.calls) != 1 || rank(rec.calls[0].pat.Name) != rank(want.Name) || rec.calls[0].pat.Typ != typ):
		r.Fail("most-specific", "iq-dispatch", lines, fmt.Sprintf("observed %s, want the handler of %s", obs, want.Enc()))
	case want != nil:
		wantToks := inTok[1:]
		if cons < len(wantToks) {
			wantToks = wantToks[:cons]
		}
		if v := rec.calls[0].val; v != nil && *v != req {
			r.Fail("full-stanza", "stanza-value", lines, fmt.Sprintf("the handler was handed the IQ value %+v, the stanza's own attributes say %+v", *v, req))
		}
		if rec.calls[0].payload != ps0.Name {
			r.Fail("full-stanza", "iq-payload-start", lines, fmt.Sprintf("the handler was given the start element %v, the payload is %v", rec.calls[0].payload, ps0.Name))
		}
		if common.EncToks(rec.calls[0].toks) != common.EncToks(wantToks) {
			r.Fail("full-stanza", "iq-view", lines, fmt.Sprintf("the handler read %s, want %s", common.EncToks(rec.calls[0].toks), common.EncToks(wantToks)))
		}
	case want == nil && request && !strings.HasPrefix(obs, "fallback@"):
		r.Fail("defaults", "request-unanswered", lines, fmt.Sprintf("unhandled %s IQ (to=%q from=%q): observed %s, want one service-unavailable error", typ, req.to, req.from, obs))
	case want == nil && request && (reply.to != req.from || reply.from != req.to || reply.id != req.id):
		r.Fail("defaults", "reply-misaddressed", lines, fmt.Sprintf("unhandled %s IQ id=%q to=%q from=%q: the error reply has id=%q to=%q from=%q", typ, req.id, req.to, req.from, reply.id, reply.to, reply.from))
	case want == nil && !request && obs != "nothing":
		r.Fail("defaults", "reply-answered", lines, fmt.Sprintf("unhandled %s IQ: observed %s, want nothing", typ, obs))
	}
}

// ---- histories on one multiplexer -------------------------------------------------

// hop is one step of a history: register a pattern (possibly with a nil handler), look a
// name up through the exported lookup of the pattern's kind, or dispatch a top-level element.
type hop struct {
	op   byte // 'R', 'L', 'D'
	pat  Pat  // R: the pattern; L: kind, type and queried name
	nilH bool
	fn   bool     // R: register through the Func variant
	name xml.Name // D
}

func (h hop) enc() string {
	switch h.op {
	case 'R':
		pre := "R"
		if h.fn {
			pre = "Rf"
		}
		if h.nilH {
			pre += "!"
		}
		return pre + h.pat.Enc()
	case 'L':
		return "L" + h.pat.Enc()
	}
	return "D" + encName(h.name)
}

type endReader struct {
	name xml.Name
	done bool
}

func (e *endReader) Token() (xml.Token, error) {
	if e.done {
		return nil, io.EOF
	}
	e.done = true
	return xml.EndElement{Name: e.name}, nil
}
func (e *endReader) EncodeToken(xml.Token) error                       { return nil }
func (e *endReader) Encode(interface{}) error                          { return nil }
func (e *endReader) EncodeElement(interface{}, xml.StartElement) error { return nil }

// hist applies a history to ONE mux value (options are applied after New, as the exported
// Option type allows) and compares every result with the model, which answers each lookup from
// the registrations made so far.
func (c *ctx) hist(stanzaNS string, ops []hop, class string) {
	r := c.r
	es := make([]string, len(ops))
	for i, o := range ops {
		es[i] = o.enc()
	}
	line := strings.Join([]string{"hist", field(stanzaNS), common.Join(es, ",")}, " ")
	lines := []string{r.Prop + " " + line}
	rec := &recorder{}
	m := mux.New(stanzaNS)
	var table []Pat
	var obs []string
	orig := map[Pat]int{} // the registration attempt whose handler a pattern must keep
	show := func(mk marker, step int) string {
		if g, ok := orig[mk.pat]; ok && g != mk.gen {
			r.Fail("register-refuse", "table-changed", lines, fmt.Sprintf("step %d: the handler of %s is the one of the refused registration attempt %d, not of the accepted attempt %d", step, mk.pat.Enc(), mk.gen, g))
			return "h=" + mk.pat.Enc() + "/REPLACED"
		}
		return "h=" + mk.pat.Enc()
	}
	step := 0
	classify := func(n xml.Name) string {
		h, ok := m.Handler(n)
		if mk, isM := identify(h, rec); isM {
			return show(mk, step)
		}
		if ok {
			return "router"
		}
		return "nop"
	}
	markerOf := func(h interface{}) string {
		if mk, ok := identify(h, rec); ok {
			return show(mk, step)
		}
		return "none"
	}
	for i, o := range ops {
		var got string
		step = i
		p := common.Recover(func() {
			switch o.op {
			case 'R':
				switch {
				case o.fn && o.nilH:
					nilFuncOption(o.pat)(m)
				case o.fn:
					funcOption(o.pat, rec, i)(m)
				case o.nilH:
					option(o.pat, rec, true)(m)
				default:
					mk := marker{pat: o.pat, rec: rec, gen: i}
					optionOf(mk)(m)
				}
				got = "ok"
			case 'L':
				switch o.pat.Kind {
				case "t":
					got = classify(o.pat.Name)
				case "i":
					h, _ := m.IQHandler(stanza.IQType(o.pat.Typ), o.pat.Name)
					got = markerOf(h)
				case "m":
					h, _ := m.MessageHandler(stanza.MessageType(o.pat.Typ), o.pat.Name)
					got = markerOf(h)
				case "p":
					h, _ := m.PresenceHandler(stanza.PresenceType(o.pat.Typ), o.pat.Name)
					got = markerOf(h)
				}
			case 'D':
				before := len(rec.calls)
				st := xml.StartElement{Name: o.name}
				_ = m.HandleXMPP(&endReader{name: o.name}, &st)
				got = ""
				for _, cl := range rec.calls[before:] {
					if cl.pat.Kind == "t" {
						got = show(marker{pat: cl.pat, gen: cl.gen}, i)
					}
				}
				if got == "" {
					got = classify(o.name)
					if strings.HasPrefix(got, "h=") {
						got = "LOOKUP-SAYS-" + got + "-BUT-NOT-CALLED"
					}
				}
			}
		})
		if p != "" {
			got = "panic"
		}
		obs = append(obs, got)
		// the specification: every answer is a function of the registrations made so far
		switch o.op {
		case 'R':
			dup := false
			for _, q := range table {
				if q == o.pat {
					dup = true
				}
			}
			stanzaTop := o.pat.Kind == "t" && (o.pat.Name.Local == "iq" || o.pat.Name.Local == "message" || o.pat.Name.Local == "presence")
			refuse := dup || o.nilH || stanzaTop
			if refuse != (got == "panic") {
				r.Fail("register-refuse", "history", lines, fmt.Sprintf("step %d (%s): got %s", i, o.enc(), got))
			}
			if !refuse {
				table = append(table, o.pat)
				orig[o.pat] = i
			}
		case 'L', 'D':
			kind, typ, n := o.pat.Kind, o.pat.Typ, o.pat.Name
			if o.op == 'D' {
				kind, typ, n = "t", "", o.name
			}
			want := best(table, kind, typ, n)
			gotPat := strings.HasPrefix(got, "h=")
			switch {
			case want == nil && gotPat, want != nil && !gotPat:
				r.Fail("most-specific", "history/"+kind, lines, fmt.Sprintf("step %d (%s): got %s, want %v from the registrations so far", i, o.enc(), got, want))
			case want != nil:
				gp, _ := decPat(strings.TrimSuffix(strings.TrimPrefix(got, "h="), "/REPLACED"))
				if rank(gp.Name) != rank(want.Name) || gp.Kind != kind || gp.Typ != typ {
					r.Fail("most-specific", "history/"+kind, lines, fmt.Sprintf("step %d (%s): got %s, the most specific registered match is %s", i, o.enc(), got, want.Enc()))
				}
			}
		}
	}
	r.Line(line, common.Join(obs, ";"))
	r.Case(line, len(table) > 0, fmt.Sprintf("%s/hist/%d", class, len(ops)))
}

// largeStanza builds a message / presence of roughly n tokens: many children over the name
// universe, long text runs, deep nesting.
func largeStanza(rnd *common.Rand, local, typ string, n int) (string, int) {
	var sb strings.Builder
	sb.WriteString("<" + local)
	if typ != "" {
		sb.WriteString(` type="` + typ + `"`)
	}
	sb.WriteString(">")
	ntok := 2
	for ntok < n {
		l := localNames[1+rnd.Intn(2)]
		s := spaces[1+rnd.Intn(2)]
		switch rnd.Intn(5) {
		case 0:
			sb.WriteString("<" + l + ` xmlns="` + s + `"/>`)
			ntok += 2
		case 1:
			sb.WriteString("<" + l + ` xmlns="` + s + `">t</` + l + ">")
			ntok += 3
		case 2:
			// a deep child
			d := 1 + rnd.Intn(12)
			sb.WriteString("<" + l + ` xmlns="` + s + `">`)
			for i := 0; i < d; i++ {
				sb.WriteString("<d>")
			}
			sb.WriteString("x")
			for i := 0; i < d; i++ {
				sb.WriteString("</d>")
			}
			sb.WriteString("</" + l + ">")
			ntok += 3 + 2*d
		case 3:
			// a long child: many grandchildren
			k := 1 + rnd.Intn(n/4+2)
			sb.WriteString("<" + l + ` xmlns="` + s + `">`)
			for i := 0; i < k; i++ {
				sb.WriteString("<g/>")
			}
			sb.WriteString("</" + l + ">")
			ntok += 2 + 2*k
		default:
			sb.WriteString("<" + l + "/> ")
			ntok += 3
		}
	}
	sb.WriteString("</" + local + ">")
	return sb.String(), ntok
}

func permutations(n int) [][]int {
	if n == 0 {
		return [][]int{nil}
	}
	var out [][]int
	for _, p := range permutations(n - 1) {
		for i := 0; i <= len(p); i++ {
			q := append(append(append([]int(nil), p[:i]...), n-1), p[i:]...)
			out = append(out, q)
		}
	}
	return out
}

func (c *ctx) register(ps []Pat, p Pat, mode string) {
	r := c.r
	nilH := mode != "ok"
	line := strings.Join([]string{"register", encPats(ps), p.Enc(), common.B(nilH)}, " ")
	lines := []string{r.Prop + " " + line, "#mode " + mode}
	rec := &recorder{}
	panicked := common.Recover(func() {
		opts := make([]mux.Option, 0, len(ps)+1)
		for _, q := range ps {
			opts = append(opts, option(q, rec, false))
		}
		switch mode {
		case "nil":
			opts = append(opts, option(p, rec, true))
		case "nilfunc":
			opts = append(opts, nilFuncOption(p))
		default:
			opts = append(opts, option(p, rec, false))
		}
		mux.New(c08.NSClient, opts...)
	})
	obs := "ok"
	if panicked != "" {
		obs = "panic"
	}
	r.Line(line, obs)
	dup := false
	for _, q := range ps {
		if q == p {
			dup = true
		}
	}
	stanzaTop := p.Kind == "t" && (p.Name.Local == "iq" || p.Name.Local == "message" || p.Name.Local == "presence")
	mustRefuse := nilH || dup
	r.Case(line, true, "register/"+mode+"/"+obs)
	if mustRefuse && obs != "panic" {
		key := "duplicate"
		if nilH {
			key = mode
		}
		r.Fail("register-refuse", key, lines, "the registration was accepted")
	}
	if !mustRefuse && !stanzaTop && obs == "panic" {
		r.Fail("register-refuse", "refused-valid", lines, panicked)
	}
}

// ---- generators ------------------------------------------------------------------

var spaces = []string{"", "urn:a", "urn:b"}
var localNames = []string{"", "x", "y"}

func universe(kind, typ string) []Pat {
	var ps []Pat
	for _, s := range spaces {
		for _, l := range localNames {
			ps = append(ps, Pat{Kind: kind, Typ: typ, Name: xml.Name{Space: s, Local: l}})
		}
	}
	return ps
}

func subset(u []Pat, mask int) []Pat {
	var ps []Pat
	for i, p := range u {
		if mask&(1<<i) != 0 {
			ps = append(ps, p)
		}
	}
	return ps
}

// the stanza types of every kind: the declared constants, then the empty type, a type the
// library does not know and a case variant of a known one (a pattern's type and a stanza's type
// are compared verbatim, no side is normalised)
var typesOf = map[string][]string{
	"t": {""},
	"i": {"get", "set", "result", "error", "", "xx", "GET"},
	"m": {"normal", "chat", "error", "groupchat", "headline", "", "xx", "Chat"},
	"p": {"", "unavailable", "subscribe", "probe", "error", "xx", "Unavailable"},
}

// attrType is the stanza type a message / presence with the given type attribute ("" = no
// attribute) has according to stanza.NewMessage / NewPresence.
func attrType(kind, attr string) string {
	var as []xml.Attr
	if attr != "" {
		as = []xml.Attr{{Name: xml.Name{Local: "type"}, Value: attr}}
	}
	return specHdr(kind, as).typ
}

func genStanza(rnd *common.Rand, local, typ string) (string, int) {
	var sb strings.Builder
	sb.WriteString("<" + local)
	if typ != "" && !(typ == "normal" && rnd.Chance(1, 2)) {
		sb.WriteString(` type="` + typ + `"`)
	}
	if rnd.Chance(1, 2) {
		sb.WriteString(` id="s1"`)
	}
	if rnd.Chance(1, 4) {
		// foreign attributes named like the stanza's own
		sb.WriteString(` xmlns:e="` + []string{"urn:ext", c08.NSClient}[rnd.Intn(2)] + `"`)
		for _, a := range []string{"type", "id", "to", "from"} {
			if rnd.Chance(1, 2) {
				sb.WriteString(` e:` + a + `="` + []string{"chat", "unavailable", "error", "", "@@"}[rnd.Intn(5)] + `"`)
			}
		}
	}
	sb.WriteString(">")
	n := rnd.Intn(5)
	ntok := 2
	for i := 0; i < n; i++ {
		switch rnd.Intn(6) {
		case 0:
			sb.WriteString("text")
			ntok++
		case 1:
			sb.WriteString(` <x xmlns="urn:a"><y xmlns="urn:b"/>t</x>`)
			ntok += 6
		default:
			l := localNames[1+rnd.Intn(2)]
			s := spaces[rnd.Intn(3)]
			if s == "" {
				// an element without its own namespace declaration is in the stream's namespace
				sb.WriteString("<" + l + "/>")
			} else {
				sb.WriteString("<" + l + ` xmlns="` + s + `"/>`)
			}
			ntok += 2
		}
	}
	sb.WriteString("</" + local + ">")
	return sb.String(), ntok
}

// Run is the C14 runner.
func Run(r *common.Run) error {
	c := &ctx{r: r}
	if r.Replay != "" {
		lines, err := common.ReplayLines(r.Replay)
		if err != nil {
			return err
		}
		return c.replay(lines)
	}
	// corpus
	c.register(nil, Pat{Kind: "i", Typ: "get", Name: xml.Name{Space: "urn:a", Local: "x"}}, "nilfunc")
	c.register(nil, Pat{Kind: "m", Typ: "chat", Name: xml.Name{}}, "nilfunc")
	c.register(nil, Pat{Kind: "p", Typ: "", Name: xml.Name{Local: "x"}}, "nilfunc")
	c.register(nil, Pat{Kind: "t", Typ: "", Name: xml.Name{Space: "urn:a", Local: "x"}}, "nilfunc")

	// exhaustive: every subset of the nine patterns over {"",urn:a,urn:b} x {"",x,y} of one
	// kind and type, every query name of the same universe (degenerate names included)
	for _, kind := range []string{"t", "i", "m", "p"} {
		typ := typesOf[kind][0]
		u := universe(kind, typ)
		if kind == "t" {
			// Handle refuses nothing in this universe (no stanza names)
			u = universe(kind, "")
		}
		step := 1
		if r.Quick() {
			step = 3
		}
		for mask := 0; mask < 1<<len(u); mask += step {
			ps := subset(u, mask)
			for _, s := range spaces {
				for _, l := range localNames {
					c.lookup(ps, kind, typ, xml.Name{Space: s, Local: l}, "exhaustive")
				}
			}
		}
	}
	// the 16 subsets of the four shapes of one name, for every kind and every type, with
	// patterns of the other kinds / types present (isolation)
	q := xml.Name{Space: "urn:a", Local: "x"}
	shapes := []xml.Name{q, {Local: "x"}, {Space: "urn:a"}, {}}
	for _, kind := range []string{"t", "i", "m", "p"} {
		for ti, typ := range typesOf[kind] {
			for mask := 0; mask < 16; mask++ {
				var ps []Pat
				for i, s := range shapes {
					if mask&(1<<i) != 0 {
						ps = append(ps, Pat{Kind: kind, Typ: typ, Name: s})
					}
				}
				// distractors: every shape for another type of the same kind and for the other kinds
				for _, k2 := range []string{"i", "m", "p"} {
					for tj, t2 := range typesOf[k2] {
						if k2 == kind && tj == ti {
							continue
						}
						if (tj+mask)%2 == 0 {
							ps = append(ps, Pat{Kind: k2, Typ: t2, Name: shapes[(tj+mask)%4]})
						}
					}
				}
				c.lookup(ps, kind, typ, q, "exhaustive-isolation")
				if kind == "t" {
					for _, sns := range []string{c08.NSClient, ""} {
						for _, n := range []xml.Name{q, {Space: c08.NSClient, Local: "message"}, {Space: c08.NSClient, Local: "iq"}, {Space: c08.NSServer, Local: "presence"}, {Space: "urn:a", Local: "message"}, {Local: "x"}} {
							c.route(ps, sns, n, "exhaustive")
						}
					}
				}
			}
		}
	}
	// the defaults: IQs of every type against every subset of the four shapes of the payload
	// name (patterns of the IQ's own type, and of another type as distractors)
	for ti, typ := range typesOf["i"] {
		for mask := 0; mask < 16; mask++ {
			var ps []Pat
			for i, s := range shapes {
				if mask&(1<<i) != 0 {
					ps = append(ps, Pat{Kind: "i", Typ: typ, Name: s})
				} else if (i+ti)%2 == 0 {
					ps = append(ps, Pat{Kind: "i", Typ: typesOf["i"][(ti+1)%len(typesOf["i"])], Name: s})
					if ti%2 == 0 {
						ps = append(ps, Pat{Kind: "i", Typ: typesOf["i"][(ti+4)%len(typesOf["i"])], Name: s})
					}
				}
			}
			c.iqDefault(ps, typ, q, "exhaustive")
		}
	}

	// IQs handed to HandleXMPP directly, both framings: payload alone, with whitespace before
	// it, with siblings and text after it, nested content; every consumption amount
	iqInner := []string{`<x xmlns="urn:a"/>`, ` <x xmlns="urn:a"/>`, "\n\t<x xmlns=\"urn:a\"><i/>t</x> ", `<x xmlns="urn:a">t</x><y xmlns="urn:b"/>tail`,
		`<y xmlns="urn:b"/><x xmlns="urn:a"/>`, `text<x xmlns="urn:a"/>`, ``, ` `, `<x xmlns="urn:a"><x xmlns="urn:a"/></x>`}
	for ti, typ := range typesOf["i"] {
		for ii, inner := range iqInner {
			for mask := 0; mask < 16; mask++ {
				if r.Quick() && (mask+ii+ti)%2 == 1 {
					continue
				}
				var ps []Pat
				for i, s := range shapes {
					if mask&(1<<i) != 0 {
						ps = append(ps, Pat{Kind: "i", Typ: typ, Name: s})
					} else if (i+ti)%2 == 0 {
						ps = append(ps, Pat{Kind: "i", Typ: typesOf["i"][(ti+1)%len(typesOf["i"])], Name: s})
					}
				}
				for _, cons := range []int{0, 1, 2, 3, 9} {
					c.iqDirect(ps, typ, inner, cons, []string{"sep", "eof"}[(mask+cons)%2], "exhaustive")
				}
			}
		}
	}

	// registration: duplicate, nil, nil func, valid
	for _, kind := range []string{"t", "i", "m", "p"} {
		typ := typesOf[kind][0]
		u := universe(kind, typ)
		for i, p := range u {
			for _, mode := range []string{"ok", "nil", "nilfunc"} {
				c.register(nil, p, mode)
				c.register(subset(u, 1<<i), p, mode)
				c.register(subset(u, (1<<len(u)-1)&^(1<<i)), p, mode)
			}
		}
	}
	c.register(nil, Pat{Kind: "t", Name: xml.Name{Space: "urn:a", Local: "message"}}, "ok")
	// every pair of types of a kind: a pattern of type T1 is found by lookups of type T1 only
	// (every shape), and does not stand in the way of registering the same name for type T2
	for _, kind := range []string{"i", "m", "p"} {
		for i1, t1 := range typesOf[kind] {
			for i2, t2 := range typesOf[kind] {
				sh := shapes[(i1+i2)%4]
				c.lookup([]Pat{{Kind: kind, Typ: t1, Name: sh}}, kind, t2, q, "type-pairs")
				c.lookup([]Pat{{Kind: kind, Typ: t1, Name: shapes[3]}, {Kind: kind, Typ: t2, Name: shapes[0]}}, kind, t2, q, "type-pairs")
				mode := "ok"
				c.register([]Pat{{Kind: kind, Typ: t1, Name: sh}}, Pat{Kind: kind, Typ: t2, Name: sh}, mode)
				c.hist(c08.NSClient, []hop{
					{op: 'R', pat: Pat{Kind: kind, Typ: t1, Name: sh}, fn: i2%2 == 1},
					{op: 'L', pat: Pat{Kind: kind, Typ: t2, Name: q}},
					{op: 'R', pat: Pat{Kind: kind, Typ: t2, Name: sh}, fn: i1%2 == 1},
					{op: 'L', pat: Pat{Kind: kind, Typ: t1, Name: q}},
					{op: 'L', pat: Pat{Kind: kind, Typ: t2, Name: q}},
				}, "type-pairs")
			}
		}
	}
	r.Exhaustive = append(r.Exhaustive, "every subset (quick: every third) of the 9 patterns over {\"\",urn:a,urn:b} x {\"\",x,y} per lookup kind x all 9 query names; the 16 subsets of the four shapes of one name x every kind and type with distractor patterns; registration of every pattern as new / duplicate / nil / nil func")

	// per-child dispatch: fixed stanzas with all consumption amounts, then random
	wild := []Pat{{Kind: "m", Typ: "chat", Name: xml.Name{}}, {Kind: "m", Typ: "chat", Name: xml.Name{Space: "urn:a", Local: "x"}}, {Kind: "m", Typ: "chat", Name: xml.Name{Local: "y"}},
		{Kind: "p", Typ: "", Name: xml.Name{}}, {Kind: "p", Typ: "", Name: xml.Name{Space: "urn:b"}}, {Kind: "m", Typ: "normal", Name: xml.Name{Space: "urn:a"}}}
	fixed := []string{
		`<message type="chat"/>`,
		`<message type="chat"></message>`,
		`<message type="chat"> </message>`,
		`<message type="chat"><x xmlns="urn:a"/></message>`,
		`<message type="chat"><x xmlns="urn:a"><i/>t</x><y xmlns="urn:b"/><z xmlns="urn:c"/></message>`,
		`<message><x xmlns="urn:a"/><y xmlns="urn:a"/></message>`,
		`<presence/>`,
		`<presence><c xmlns="urn:b"/>  <x xmlns="urn:a"/></presence>`,
		`<presence type="unavailable"><c xmlns="urn:b"/></presence>`,
	}
	// payload patterns whose name coincides with a stanza's own name or namespace: the exact
	// names {jabber:client|server}message / presence, the stanza namespaces alone, the local
	// names message / presence / iq alone — on empty stanzas (which go to the type wildcard,
	// looked up with the EMPTY name) and on stanzas whose children really have those names
	ownNames := []xml.Name{{}, {Space: c08.NSClient, Local: "message"}, {Space: c08.NSClient, Local: "presence"},
		{Space: c08.NSServer, Local: "message"}, {Space: c08.NSClient}, {Space: c08.NSServer},
		{Local: "message"}, {Local: "presence"}, {Local: "iq"}}
	ownStanzas := []string{
		`<message type="chat"/>`, `<message/>`, `<presence/>`, `<presence type="unavailable"></presence>`,
		`<message type="chat"><message type="chat"/></message>`,
		`<message type="chat"><presence/><x xmlns="urn:a"/></message>`,
		`<presence><presence/><message xmlns="jabber:server"/></presence>`,
		`<presence><iq/></presence>`,
	}
	ostep := r.Pick(5, 1)
	for mask := 0; mask < 1<<len(ownNames); mask += ostep {
		for si, sx := range ownStanzas {
			if r.Quick() && (mask+si)%2 == 1 {
				continue
			}
			kind, typ := "m", "chat"
			switch {
			case strings.HasPrefix(sx, "<presence type"):
				kind, typ = "p", "unavailable"
			case strings.HasPrefix(sx, "<presence"):
				kind, typ = "p", ""
			case strings.HasPrefix(sx, "<message/>"):
				typ = "normal"
			}
			var ps []Pat
			for i, nm := range ownNames {
				if mask&(1<<i) != 0 {
					ps = append(ps, Pat{Kind: kind, Typ: typ, Name: nm})
				}
			}
			c.children(ps, sx, []int{9, 9, 9}, "own-names")
		}
	}
	// the same names in the lookups of every kind
	for _, kind := range []string{"i", "m", "p"} {
		typ := typesOf[kind][0]
		for mask := 0; mask < 1<<len(ownNames); mask += r.Pick(7, 1) {
			var ps []Pat
			for i, nm := range ownNames {
				if mask&(1<<i) != 0 {
					ps = append(ps, Pat{Kind: kind, Typ: typ, Name: nm})
				}
			}
			for _, qn := range []xml.Name{{}, {Space: c08.NSClient, Local: "message"}, {Space: c08.NSServer, Local: "presence"}, {Space: "urn:a", Local: "iq"}} {
				c.lookup(ps, kind, typ, qn, "own-names")
			}
		}
	}

	// the stanza's own attributes: the type that selects the patterns (and, for the default IQ
	// reply, the id and the addresses) comes from the UNQUALIFIED attributes of the start element
	// only.  Every own type (absent / declared / unknown) x a foreign attribute named type (absent,
	// before, after the own one; in a foreign namespace or in the stanza's own namespace bound to
	// a prefix) x foreign id / to / from (also with values that are not addresses), with patterns
	// registered for the own type AND for the foreign attribute's value.
	foreignNS := []string{"urn:ext", c08.NSClient}
	for _, kind := range []string{"m", "p"} {
		local := map[string]string{"m": "message", "p": "presence"}[kind]
		owns := []string{"", typesOf[kind][1], "xx", typesOf[kind][4]}
		for oi, own := range owns {
			for fi, ft := range []string{"", typesOf[kind][1], typesOf[kind][2], typesOf[kind][0], "error"} {
				for pos := 0; pos < 3; pos++ {
					if ft == "" && fi+pos > 0 {
						continue
					}
					if r.Quick() && (oi+fi+pos)%2 == 1 && ft != "" && own != "" {
						continue
					}
					fns := foreignNS[(oi+fi+pos)%2]
					ownA, forA := "", ""
					if own != "" {
						ownA = ` type="` + own + `"`
					}
					if fi > 0 {
						forA = ` e:type="` + ft + `"`
					}
					extra := []string{"", ` id="s1"`, ` e:id="s2" id="s1"`, ` e:to="not an address@@" to="b@example.net"`, ` e:from="@@" xml:lang="en"`}[(oi+2*fi+pos)%5]
					attrs := ` xmlns:e="` + fns + `"`
					switch pos {
					case 0:
						attrs += forA + ownA + extra
					case 1:
						attrs += ownA + forA + extra
					default:
						attrs += extra + ownA + forA
					}
					eff := attrType(kind, own)
					var ps []Pat
					for _, t := range []string{eff, ft, own, attrType(kind, ft)} {
						for _, nm := range []xml.Name{{}, {Space: "urn:a", Local: "x"}} {
							np := Pat{Kind: kind, Typ: t, Name: nm}
							dup := false
							for _, q := range ps {
								dup = dup || q == np
							}
							if !dup {
								ps = append(ps, np)
							}
						}
					}
					for _, inner := range []string{"", `<x xmlns="urn:a"/>`, `<y xmlns="urn:b"/><x xmlns="urn:a">t</x>`} {
						c.children(ps, "<"+local+attrs+">"+inner+"</"+local+">", []int{9, 2, 9}, "own-attrs")
					}
				}
			}
		}
	}
	// the default reply to an unhandled IQ, over every type x the addresses of the request
	// (absent, only one, different, EQUAL: an entity may query its own address) x with / without
	// id x foreign attributes named type / from / to: a request is answered exactly once, the
	// reply goes back to the sender with the request's id; a reply is never answered
	addrs := []string{"", "a@example.org/r", "b@example.net", "a@example.org"}
	for ti, typ := range typesOf["i"] {
		for ai, to := range addrs {
			for bi, from := range addrs {
				for _, id := range []string{"d1", ""} {
					if r.Quick() && id == "" && (ti+ai+bi)%3 != 0 {
						continue
					}
					attrs := ""
					if typ != "" {
						attrs += ` type="` + typ + `"`
					}
					foreign := []string{"", ` xmlns:e="urn:ext" e:type="result"`, ` xmlns:e="jabber:client" e:type="get" e:from="c@example.com"`, ` xmlns:e="urn:ext" e:to="@@" e:id="zz"`}[(ti+ai+2*bi)%4]
					if (ai+bi)%2 == 0 {
						attrs = foreign + attrs
					}
					if id != "" {
						attrs += ` id="` + id + `"`
					}
					if to != "" {
						attrs += ` to="` + to + `"`
					}
					if from != "" {
						attrs += ` from="` + from + `"`
					}
					if (ai+bi)%2 == 1 {
						attrs += foreign
					}
					sx := `<iq` + attrs + `><x xmlns="urn:a"/></iq>`
					fr := []string{"sep", "eof"}[(ti+ai+bi)%2]
					// no pattern at all / only patterns that do not match (other type, other name, the type a
					// foreign attribute names) / a matching one
					c.iqDirectX(nil, sx, 0, fr, "iq-addresses")
					c.iqDirectX([]Pat{{Kind: "i", Typ: typesOf["i"][(ti+1)%len(typesOf["i"])], Name: xml.Name{}}, {Kind: "i", Typ: typ, Name: xml.Name{Space: "urn:b"}}}, sx, 1, fr, "iq-addresses")
					if id != "" {
						c.iqDirectX([]Pat{{Kind: "i", Typ: typ, Name: xml.Name{Local: "x"}}, {Kind: "i", Typ: "result", Name: q}, {Kind: "i", Typ: "get", Name: q}}, sx, 2, fr, "iq-addresses")
					}
				}
			}
		}
	}

	maxC := r.Pick(9, 12)
	for _, s := range fixed {
		for c1 := 0; c1 <= maxC; c1++ {
			for c2 := 0; c2 <= maxC; c2 += 3 {
				c.children(wild, s, []int{c1, c2, 4}, "fixed")
			}
		}
	}
	rnd := r.Rnd

	// histories on one mux value: for every kind and every order of registering the four
	// shapes of a name, look the name up (and dispatch it, for the top-level table) before
	// the first and after every registration; then random histories
	for _, kind := range []string{"t", "i", "m", "p"} {
		typ := typesOf[kind][len(typesOf[kind])-1]
		shp := shapes
		if kind == "t" {
			shp = shapes[:3]
		}
		for _, perm := range permutations(len(shp)) {
			var ops []hop
			look := func() {
				ops = append(ops, hop{op: 'L', pat: Pat{Kind: kind, Typ: typ, Name: q}})
				if kind == "t" {
					ops = append(ops, hop{op: 'D', name: q})
				}
			}
			look()
			for _, i := range perm {
				ops = append(ops, hop{op: 'R', pat: Pat{Kind: kind, Typ: typ, Name: shp[i]}})
				look()
			}
			// refused registrations (duplicate through the plain and the Func option, nil) must
			// leave the table as it was: look again after each
			ops = append(ops, hop{op: 'R', pat: Pat{Kind: kind, Typ: typ, Name: shp[perm[0]]}})
			look()
			ops = append(ops, hop{op: 'R', pat: Pat{Kind: kind, Typ: typ, Name: shp[perm[len(perm)-1]]}, fn: true})
			look()
			ops = append(ops, hop{op: 'R', pat: Pat{Kind: kind, Typ: typ, Name: shp[0]}, nilH: true, fn: len(perm)%2 == 0})
			look()
			c.hist(c08.NSClient, ops, "hist-exhaustive")
			// the same history with every registration through the Func variant
			fops := append([]hop(nil), ops...)
			for k := range fops {
				if fops[k].op == 'R' && !fops[k].nilH {
					fops[k].fn = !fops[k].fn
				}
			}
			c.hist(c08.NSClient, fops, "hist-exhaustive-func")
		}
	}
	nh := r.Pick(1500, 20000)
	for i := 0; i < nh; i++ {
		var ops []hop
		kinds := []string{"t", "i", "m", "p"}
		nops := 3 + rnd.Intn(14)
		for k := 0; k < nops; k++ {
			kind := kinds[rnd.Intn(4)]
			typ := typesOf[kind][rnd.Intn(len(typesOf[kind]))]
			if rnd.Chance(2, 3) {
				typ = typesOf[kind][0]
			}
			nm := xml.Name{Space: spaces[rnd.Intn(3)], Local: localNames[rnd.Intn(3)]}
			switch rnd.Intn(7) {
			case 0, 1, 2:
				ops = append(ops, hop{op: 'R', pat: Pat{Kind: kind, Typ: typ, Name: nm}, nilH: rnd.Chance(1, 12), fn: rnd.Chance(1, 3)})
			case 3:
				real := xml.Name{Space: spaces[1+rnd.Intn(2)], Local: localNames[1+rnd.Intn(2)]}
				if rnd.Chance(1, 6) {
					real = xml.Name{Space: c08.NSClient, Local: []string{"message", "iq", "presence"}[rnd.Intn(3)]}
				}
				ops = append(ops, hop{op: 'D', name: real})
			default:
				if rnd.Chance(3, 4) {
					nm = xml.Name{Space: spaces[1+rnd.Intn(2)], Local: localNames[1+rnd.Intn(2)]}
				}
				ops = append(ops, hop{op: 'L', pat: Pat{Kind: kind, Typ: typ, Name: nm}})
			}
		}
		sns := c08.NSClient
		if rnd.Chance(1, 5) {
			sns = ""
		}
		c.hist(sns, ops, "hist-random")
	}

	// large stanzas: token counts crossing 16 / 64 / 256 / 1024 / 4096 (thorough: 16384 and
	// 65536), handlers for many children, a few of which read the whole stanza
	sizes := []int{12, 20, 60, 70, 130, 250, 270, 600, 1020, 1100, 2500, 4090, 4200}
	if !r.Quick() {
		sizes = append(sizes, 9000, 16380, 16500, 40000, 65530, 66000, 70000)
	}
	for si, size := range sizes {
		reps := r.Pick(3, 8)
		if size > 5000 {
			reps = 2
		}
		for rep := 0; rep < reps; rep++ {
			local, kind := "message", "m"
			if (si+rep)%3 == 2 {
				local, kind = "presence", "p"
			}
			styp := typesOf[kind][rnd.Intn(len(typesOf[kind]))]
			s, ntok := largeStanza(rnd, local, styp, size)
			// the wildcard and a few specific patterns of the stanza's type
			raw := styp
			styp = attrType(kind, styp)
			ps := []Pat{{Kind: kind, Typ: styp, Name: xml.Name{}}}
			if raw != styp {
				ps = append(ps, Pat{Kind: kind, Typ: raw, Name: xml.Name{}})
			}
			for _, p := range universe(kind, styp)[1:] {
				if rnd.Chance(1, 3) {
					ps = append(ps, p)
				}
			}
			nchild := strings.Count(s, "xmlns=") + strings.Count(s, "/> ") + 2
			cons := make([]int, nchild)
			for k := range cons {
				cons[k] = rnd.Intn(6)
			}
			// the first, the last and a few calls in between read everything (and beyond)
			for _, k := range []int{0, nchild - 3, nchild - 2, nchild / 2, rnd.Intn(nchild), rnd.Intn(nchild)} {
				if k >= 0 && k < nchild {
					cons[k] = ntok + 3
				}
			}
			if rep%2 == 1 {
				// only late handlers read: the iterator alone fills the buffer before them
				for k := range cons {
					if k < nchild/2 {
						cons[k] = 0
					}
				}
			}
			c.children(ps, s, cons, fmt.Sprintf("large-%d", size))
		}
	}

	n := r.Pick(3000, 40000)
	for i := 0; i < n; i++ {
		local := "message"
		kind := "m"
		if rnd.Chance(1, 3) {
			local, kind = "presence", "p"
		}
		styp := typesOf[kind][rnd.Intn(len(typesOf[kind]))]
		s, ntok := genStanza(rnd, local, styp)
		raw := styp
		styp = attrType(kind, styp)
		var ps []Pat
		for ui, k2 := range []string{kind, kind, "m", "p", "i"} {
			ts := typesOf[k2]
			t2 := ts[rnd.Intn(len(ts))]
			if ui == 0 {
				t2 = styp
			}
			if ui == 1 && raw != styp {
				t2 = raw
			}
			u := universe(k2, t2)
			for _, p := range u {
				if rnd.Chance(1, 4) {
					ps = append(ps, p)
				}
			}
		}
		if rnd.Chance(1, 3) {
			for _, nm := range ownNames[1:] {
				if rnd.Chance(1, 3) {
					ps = append(ps, Pat{Kind: kind, Typ: styp, Name: nm})
				}
			}
		}
		sort.Slice(ps, func(a, b int) bool { return ps[a].Enc() < ps[b].Enc() })
		var dd []Pat
		for i, p := range ps {
			if i == 0 || ps[i-1] != p {
				dd = append(dd, p)
			}
		}
		cons := make([]int, 6)
		for k := range cons {
			cons[k] = rnd.Intn(ntok + 3)
		}
		c.children(dd, s, cons, "random")
	}
	c.runE()
	return nil
}

func decPat(s string) (Pat, error) {
	f := strings.Split(s, ":")
	if len(f) != 4 {
		return Pat{}, fmt.Errorf("bad pattern %q", s)
	}
	un := func(x string) string {
		b, _ := common.UnHex(x)
		if x == "" {
			return ""
		}
		return string(b)
	}
	return Pat{Kind: f[0], Typ: un(f[1]), Name: xml.Name{Space: un(f[2]), Local: un(f[3])}}, nil
}

func decInts(s string) []int {
	var out []int
	if s != "-" {
		for _, x := range strings.Split(s, ",") {
			var v int
			fmt.Sscan(x, &v)
			out = append(out, v)
		}
	}
	return out
}

func decPats(s string) ([]Pat, error) {
	if s == "-" {
		return nil, nil
	}
	var ps []Pat
	for _, x := range strings.Split(s, ",") {
		p, err := decPat(x)
		if err != nil {
			return nil, err
		}
		ps = append(ps, p)
	}
	return ps, nil
}

func unfield(s string) string {
	if s == "-" {
		return ""
	}
	b, _ := common.UnHex(s)
	return string(b)
}

func decName(s string) xml.Name {
	f := strings.Split(s, ":")
	if len(f) != 2 {
		return xml.Name{}
	}
	a, _ := common.UnHex(f[0])
	b, _ := common.UnHex(f[1])
	if f[0] == "" {
		a = nil
	}
	if f[1] == "" {
		b = nil
	}
	return xml.Name{Space: string(a), Local: string(b)}
}

func (c *ctx) replay(lines []string) error {
	for i, l := range lines {
		f := strings.Fields(l)
		if len(f) < 2 || f[0] != "C14" {
			continue
		}
		switch f[1] {
		case "lookup":
			if len(f) != 6 {
				continue
			}
			ps, err := decPats(f[5])
			if err != nil {
				return err
			}
			c.lookup(ps, f[2], unfield(f[3]), decName(f[4]), "replay")
		case "route":
			if len(f) != 5 {
				continue
			}
			ps, err := decPats(f[4])
			if err != nil {
				return err
			}
			c.route(ps, unfield(f[2]), decName(f[3]), "replay")
		case "hist":
			if len(f) != 4 {
				continue
			}
			var ops []hop
			if f[3] != "-" {
				for _, x := range strings.Split(f[3], ",") {
					switch {
					case strings.HasPrefix(x, "R!"), strings.HasPrefix(x, "Rf"):
						h := hop{op: 'R'}
						y := x[1:]
						if strings.HasPrefix(y, "f") {
							h.fn, y = true, y[1:]
						}
						if strings.HasPrefix(y, "!") {
							h.nilH, y = true, y[1:]
						}
						p, err := decPat(y)
						if err != nil {
							return err
						}
						h.pat = p
						ops = append(ops, h)
					case strings.HasPrefix(x, "R"), strings.HasPrefix(x, "L"):
						p, err := decPat(x[1:])
						if err != nil {
							return err
						}
						ops = append(ops, hop{op: x[0], pat: p})
					case strings.HasPrefix(x, "D"):
						ops = append(ops, hop{op: 'D', name: decName(x[1:])})
					}
				}
			}
			c.hist(unfield(f[2]), ops, "replay")
		case "elem":
			if len(f) != 7 || i+1 >= len(lines) || !strings.HasPrefix(lines[i+1], "#elem ") {
				continue
			}
			ps, err := decPats(f[4])
			if err != nil {
				return err
			}
			sx, _ := common.UnHex(strings.TrimPrefix(lines[i+1], "#elem "))
			c.elem(f[2], unfield(f[3]), ps, string(sx), decInts(f[6]), "replay")
		case "cut":
			if len(f) != 8 || i+1 >= len(lines) || !strings.HasPrefix(lines[i+1], "#stanza ") {
				continue
			}
			ps, err := decPats(f[4])
			if err != nil {
				return err
			}
			sx, _ := common.UnHex(strings.TrimPrefix(lines[i+1], "#stanza "))
			var cut int
			fmt.Sscan(f[7], &cut)
			c.cutDispatch(ps, string(sx), decInts(f[6]), cut, nil, "replay")
		case "overlap":
			if len(f) != 11 || i+2 >= len(lines) || !strings.HasPrefix(lines[i+1], "#a ") || !strings.HasPrefix(lines[i+2], "#b ") {
				continue
			}
			ps, err := decPats(f[4])
			if err != nil {
				return err
			}
			ax, _ := common.UnHex(strings.TrimPrefix(lines[i+1], "#a "))
			bx, _ := common.UnHex(strings.TrimPrefix(lines[i+2], "#b "))
			var warm, at, pre int
			fmt.Sscan(f[3], &warm)
			fmt.Sscan(f[7], &at)
			fmt.Sscan(f[8], &pre)
			c.overlap(f[2], warm, ps, string(ax), decInts(f[6]), at, pre, string(bx), decInts(f[10]), "replay")
		case "iqdirect":
			if len(f) == 8 && i+1 < len(lines) && strings.HasPrefix(lines[i+1], "#addr ") {
				ps, err := decPats(f[4])
				if err != nil {
					return err
				}
				sx, _ := common.UnHex(strings.TrimPrefix(lines[i+1], "#addr "))
				c.addrDirect(ps, string(sx), decInts(f[6]), f[2], "replay")
				continue
			}
			if len(f) != 7 || i+1 >= len(lines) {
				continue
			}
			ps, err := decPats(f[4])
			if err != nil {
				return err
			}
			var cn int
			fmt.Sscan(f[6], &cn)
			switch {
			case strings.HasPrefix(lines[i+1], "#iq "):
				sx, _ := common.UnHex(strings.TrimPrefix(lines[i+1], "#iq "))
				c.iqDirectX(ps, string(sx), cn, f[2], "replay")
			case strings.HasPrefix(lines[i+1], "#inner "):
				in, _ := common.UnHex(strings.TrimPrefix(lines[i+1], "#inner "))
				c.iqDirect(ps, unfield(f[3]), string(in), cn, f[2], "replay")
			}
		case "iqdefault":
			if len(f) != 5 {
				continue
			}
			ps, err := decPats(f[4])
			if err != nil {
				return err
			}
			c.iqDefault(ps, unfield(f[2]), decName(f[3]), "replay")
		case "register":
			if len(f) != 5 {
				continue
			}
			ps, err := decPats(f[2])
			if err != nil {
				return err
			}
			p, err := decPat(f[3])
			if err != nil {
				return err
			}
			mode := "ok"
			if i+1 < len(lines) && strings.HasPrefix(lines[i+1], "#mode ") {
				mode = strings.TrimPrefix(lines[i+1], "#mode ")
			}
			c.register(ps, p, mode)
		case "children":
			if len(f) != 7 || i+1 >= len(lines) || !strings.HasPrefix(lines[i+1], "#stanza ") {
				continue
			}
			ps, err := decPats(f[4])
			if err != nil {
				return err
			}
			sx, _ := common.UnHex(strings.TrimPrefix(lines[i+1], "#stanza "))
			cons := decInts(f[6])
			c.dispatch(ps, string(sx), cons, nil, "session", "replay")
		case "direct":
			if len(f) == 10 && i+1 < len(lines) && strings.HasPrefix(lines[i+1], "#addr ") {
				ps, err := decPats(f[5])
				if err != nil {
					return err
				}
				sx, _ := common.UnHex(strings.TrimPrefix(lines[i+1], "#addr "))
				c.addrDirect(ps, string(sx), decInts(f[7]), f[2], "replay")
				continue
			}
			if len(f) != 9 || i+1 >= len(lines) || !strings.HasPrefix(lines[i+1], "#stanza ") {
				continue
			}
			ps, err := decPats(f[5])
			if err != nil {
				return err
			}
			sx, _ := common.UnHex(strings.TrimPrefix(lines[i+1], "#stanza "))
			c.dispatch(ps, string(sx), decInts(f[7]), decInts(f[8]), f[2], "replay")
		}
	}
	return nil
}

// ---- probe facts -------------------------------------------------------------------

func leanStr(s string) string { return fmt.Sprintf("%q", s) }

func leanKind(k string) string {
	return map[string]string{"t": ".top", "i": ".iq", "m": ".msg", "p": ".pres"}[k]
}

func leanBool(b bool) string {
	if b {
		return "true"
	}
	return "false"
}

// Facts runs the real registration options and exported lookups over complete finite domains
// and emits the resulting tables as Lean definitions (Generated/C14.lean):
//
//	typeTable    every kind x every ordered pair (T1, T2) of the type universe: is a pattern
//	             registered with type T1 (bare wildcard, plain option; exact name, Func option)
//	             found by the lookup of type T2, and is registering the same name for T2 after T1
//	             accepted
//	cascadeTable every kind x every subset of the four shapes of one name: which shape the
//	             exported lookup returns
//
// Nothing here depends on the source text of the library: any refactoring that keeps the
// behaviour keeps the tables.
func Facts(repo string) (string, error) {
	var sb strings.Builder
	sb.WriteString("-- GENERATED by `harness facts C14`: the real mux options and lookups run on complete finite domains; do not edit.\n")
	sb.WriteString("import XmppModel.Model.Mux\nimport XmppModel.Model.MuxElem\n")
	sb.WriteString("namespace XmppModel.Generated.C14\nopen XmppModel.Mux\n\n")
	q := xml.Name{Space: "urn:a", Local: "x"}
	found := func(ps []Pat, fn bool, kind, typ string) (res string) {
		res = "none"
		rec := &recorder{}
		p := common.Recover(func() {
			m := mux.New(c08.NSClient)
			for i, pt := range ps {
				if fn {
					funcOption(pt, rec, i)(m)
				} else {
					optionOf(marker{pat: pt, rec: rec, gen: i})(m)
				}
			}
			var h interface{}
			switch kind {
			case "t":
				h, _ = m.Handler(q)
			case "i":
				h, _ = m.IQHandler(stanza.IQType(typ), q)
			case "m":
				h, _ = m.MessageHandler(stanza.MessageType(typ), q)
			case "p":
				h, _ = m.PresenceHandler(stanza.PresenceType(typ), q)
			}
			if mk, ok := identify(h, rec); ok {
				res = fmt.Sprintf("some ⟨%s, %s, ⟨%s, %s⟩⟩", leanKind(mk.pat.Kind), leanStr(mk.pat.Typ), leanStr(mk.pat.Name.Space), leanStr(mk.pat.Name.Local))
			}
		})
		if p != "" {
			res = "PANIC"
		}
		return res
	}
	ok := true
	var rows []string
	for _, kind := range []string{"i", "m", "p"} {
		for _, t1 := range typesOf[kind] {
			for _, t2 := range typesOf[kind] {
				a := found([]Pat{{Kind: kind, Typ: t1, Name: xml.Name{}}}, false, kind, t2)
				b := found([]Pat{{Kind: kind, Typ: t1, Name: q}}, true, kind, t2)
				if a == "PANIC" || b == "PANIC" {
					ok = false
				}
				second := common.Recover(func() {
					rec := &recorder{}
					m := mux.New(c08.NSClient)
					optionOf(marker{pat: Pat{Kind: kind, Typ: t1, Name: q}, rec: rec})(m)
					funcOption(Pat{Kind: kind, Typ: t2, Name: q}, rec, 1)(m)
				}) == ""
				rows = append(rows, fmt.Sprintf("  ⟨%s, %s, %s, %s, %s, %s⟩", leanKind(kind), leanStr(t1), leanStr(t2), leanBool(a != "none"), leanBool(b != "none"), leanBool(second)))
			}
		}
	}
	sb.WriteString("/-- (kind, T1, T2, wildcard of T1 found by the T2 lookup, exact name of T1 (Func option) found by the T2 lookup,\n    the same name accepted for T2 after T1) -/\n")
	if ok {
		sb.WriteString("def typeTable : Option (List TypeRow) := some [\n" + strings.Join(rows, ",\n") + "]\n\n")
	} else {
		sb.WriteString("def typeTable : Option (List TypeRow) := none\n\n")
	}
	shapes := []xml.Name{q, {Local: "x"}, {Space: "urn:a"}, {}}
	rows = nil
	ok = true
	for _, kind := range []string{"t", "i", "m", "p"} {
		typ := ""
		if kind != "t" {
			typ = typesOf[kind][1]
		}
		nsh := 4
		if kind == "t" {
			nsh = 3 // Handle(xml.Name{}) is legal but the top-level cascade has no bare-wildcard step; kept out
		}
		for mask := 0; mask < 1<<nsh; mask++ {
			var ps []Pat
			for i := nsh - 1; i >= 0; i-- {
				if mask&(1<<i) != 0 {
					ps = append(ps, Pat{Kind: kind, Typ: typ, Name: shapes[i]})
				}
			}
			a := found(ps, mask%2 == 1, kind, typ)
			if a == "PANIC" {
				ok = false
			}
			rows = append(rows, fmt.Sprintf("  ⟨%s, %s, %d, %s⟩", leanKind(kind), leanStr(typ), mask, a))
		}
	}
	sb.WriteString("/-- (kind, type, mask of the registered shapes of {urn:a}x: 1 exact, 2 local name only, 4 namespace only, 8 wildcard,\n    the pattern whose handler the exported lookup returns) -/\n")
	if ok {
		sb.WriteString("def cascadeTable : Option (List CascadeRow) := some [\n" + strings.Join(rows, ",\n") + "]\n\n")
	} else {
		sb.WriteString("def cascadeTable : Option (List CascadeRow) := none\n\n")
	}
	// ---- the header the routers read from the start element ------------------------------
	// every attribute list of length <= 2 over a universe of own and foreign type / id / to /
	// from attributes, sent as an empty message / presence (an IQ with one payload) to a
	// multiplexer holding the bare wildcard of every candidate type: the type is that of the
	// pattern whose handler runs, id and addresses are those of the stanza value it is handed
	xmlNS := "http://www.w3.org/XML/1998/namespace"
	probeAttrs := []xml.Attr{
		{Name: xml.Name{Local: "type"}, Value: "chat"}, {Name: xml.Name{Local: "type"}, Value: "unavailable"}, {Name: xml.Name{Local: "type"}, Value: ""},
		{Name: xml.Name{Space: "urn:ext", Local: "type"}, Value: "error"}, {Name: xml.Name{Space: c08.NSClient, Local: "type"}, Value: "subscribe"},
		{Name: xml.Name{Space: xmlNS, Local: "lang"}, Value: "en"},
		{Name: xml.Name{Local: "id"}, Value: "i1"}, {Name: xml.Name{Space: "urn:ext", Local: "id"}, Value: "i2"},
		{Name: xml.Name{Local: "to"}, Value: "a@example.org"}, {Name: xml.Name{Space: "urn:ext", Local: "from"}, Value: "b@example.org"}, {Name: xml.Name{Local: "from"}, Value: "c@example.org/r"},
	}
	lists := [][]xml.Attr{nil}
	for _, a := range probeAttrs {
		lists = append(lists, []xml.Attr{a})
	}
	for _, a := range probeAttrs {
		for _, b := range probeAttrs {
			// (two unqualified attributes of one name are not well-formed XML: which one counts is
			// the implementation's business)
			if a.Name.Space == "" && b.Name.Space == "" && a.Name.Local == b.Name.Local {
				continue
			}
			lists = append(lists, []xml.Attr{a, b})
		}
	}
	candTypes := []string{"", "normal", "chat", "unavailable", "error", "subscribe", "en", "i1", "i2"}
	leanAttrs := func(as []xml.Attr) string {
		var f []string
		for _, a := range as {
			f = append(f, fmt.Sprintf("⟨⟨%s, %s⟩, %s⟩", leanStr(a.Name.Space), leanStr(a.Name.Local), leanStr(a.Value)))
		}
		return "[" + strings.Join(f, ", ") + "]"
	}
	leanHdr := func(h hdr) string {
		return fmt.Sprintf("⟨%s, %s, %s, %s⟩", leanStr(h.typ), leanStr(h.id), leanStr(h.to), leanStr(h.from))
	}
	rows = nil
	ok = true
	for _, kind := range []string{"i", "m", "p"} {
		local := map[string]string{"i": "iq", "m": "message", "p": "presence"}[kind]
		for li, as := range lists {
			var seen []hdr
			pn := common.Recover(func() {
				var opts []mux.Option
				for _, t := range candTypes {
					t := t
					switch kind {
					case "i":
						opts = append(opts, mux.IQFunc(stanza.IQType(t), xml.Name{}, func(iq stanza.IQ, _ xmlstream.TokenReadEncoder, _ *xml.StartElement) error {
							seen = append(seen, hdr{t, iq.ID, iq.To.String(), iq.From.String()})
							return nil
						}))
					case "m":
						opts = append(opts, mux.MessageFunc(stanza.MessageType(t), xml.Name{}, func(v stanza.Message, _ xmlstream.TokenReadEncoder) error {
							seen = append(seen, hdr{t, v.ID, v.To.String(), v.From.String()})
							return nil
						}))
					default:
						opts = append(opts, mux.PresenceFunc(stanza.PresenceType(t), xml.Name{}, func(v stanza.Presence, _ xmlstream.TokenReadEncoder) error {
							seen = append(seen, hdr{t, v.ID, v.To.String(), v.From.String()})
							return nil
						}))
					}
				}
				m := mux.New(c08.NSClient, opts...)
				name := xml.Name{Space: c08.NSClient, Local: local}
				start := xml.StartElement{Name: name, Attr: append([]xml.Attr(nil), as...)}
				toks := []xml.Token{xml.EndElement{Name: name}}
				if kind == "i" || li%2 == 1 {
					// IQs carry a payload; every second message / presence has a child, so that both the
					// per-child path and the empty-stanza path of forChildren are probed
					toks = []xml.Token{xml.StartElement{Name: q}, xml.EndElement{Name: q}, xml.EndElement{Name: name}}
				}
				_ = m.HandleXMPP(&framedReader{toks: toks, framing: "sep"}, &start)
			})
			if pn != "" || len(seen) != 1 {
				ok = false
				continue
			}
			rows = append(rows, fmt.Sprintf("  ⟨%s, %s, %s⟩", leanKind(kind), leanAttrs(as), leanHdr(seen[0])))
		}
	}
	sb.WriteString("/-- (kind, attributes of the start element, the type under which the multiplexer dispatched the stanza and the id /\n    to / from of the stanza value handed to the handler) -/\n")
	if ok {
		sb.WriteString("def hdrTable : Option (List HdrRow) := some [\n" + strings.Join(rows, ",\n") + "]\n\n")
	} else {
		sb.WriteString("def hdrTable : Option (List HdrRow) := none\n\n")
	}
	// ---- the default reply ----------------------------------------------------------------
	// an IQ of every type x every pair of addresses (absent, different, equal) x with / without id,
	// sent to a multiplexer without patterns: the header of the one error reply written, or none
	rows = nil
	ok = true
	for _, t := range typesOf["i"] {
		for _, to := range []string{"", "a@example.org/r", "b@example.net"} {
			for _, from := range []string{"", "a@example.org/r", "b@example.net"} {
				for _, id := range []string{"", "d1"} {
					req := hdr{t, id, to, from}
					var as []xml.Attr
					for _, kv := range [][2]string{{"type", t}, {"id", id}, {"to", to}, {"from", from}} {
						if kv[1] != "" {
							as = append(as, xml.Attr{Name: xml.Name{Local: kv[0]}, Value: kv[1]})
						}
					}
					name := xml.Name{Space: c08.NSClient, Local: "iq"}
					start := xml.StartElement{Name: name, Attr: as}
					fr := &framedReader{toks: []xml.Token{xml.StartElement{Name: q}, xml.EndElement{Name: q}, xml.EndElement{Name: name}}, framing: "sep"}
					var herr error
					pn := common.Recover(func() { herr = mux.New(c08.NSClient).HandleXMPP(fr, &start) })
					rep := "none"
					switch {
					case pn != "" || herr != nil || fr.other > 0:
						ok = false
					case len(fr.out) == 0:
					default:
						h, isR := fallbackReply(fr.out)
						if !isR {
							ok = false
						}
						rep = "some " + leanHdr(h)
					}
					rows = append(rows, fmt.Sprintf("  ⟨%s, %s⟩", leanHdr(req), rep))
				}
			}
		}
	}
	sb.WriteString("/-- (type, id, to, from of an IQ no pattern matches; the header of the service-unavailable error reply written) -/\n")
	if ok {
		sb.WriteString("def fallbackTable : Option (List FallbackRow) := some [\n" + strings.Join(rows, ",\n") + "]\n\n")
	} else {
		sb.WriteString("def fallbackTable : Option (List FallbackRow) := none\n\n")
	}
	// ---- which stanza router an element reaches ------------------------------------------------
	// every construction of the multiplexer value x the namespace given to New x element names over
	// {none, the stanza namespaces, another} x {iq, message, presence, x}: the multiplexer holds the
	// bare wildcard of every kind, the element carries type="get" and one child; the router is the
	// kind of the handler that ran
	rows = nil
	ok = true
	for _, ctor := range ctors {
		for _, ns := range []string{"", c08.NSClient, c08.NSServer} {
			for _, sp := range []string{"", c08.NSClient, c08.NSServer, "jabber:component:accept", "urn:a"} {
				for _, local := range []string{"iq", "message", "presence", "x"} {
					var seen []string
					opts := []mux.Option{
						mux.IQFunc(stanza.GetIQ, xml.Name{}, func(stanza.IQ, xmlstream.TokenReadEncoder, *xml.StartElement) error {
							seen = append(seen, ".iq")
							return nil
						}),
						mux.MessageFunc(stanza.NormalMessage, xml.Name{}, func(stanza.Message, xmlstream.TokenReadEncoder) error {
							seen = append(seen, ".msg")
							return nil
						}),
						mux.PresenceFunc(stanza.PresenceType("get"), xml.Name{}, func(stanza.Presence, xmlstream.TokenReadEncoder) error {
							seen = append(seen, ".pres")
							return nil
						}),
					}
					pn := ""
					var m *mux.ServeMux
					if ctor == "zero" || ctor == "value" {
						m, pn = buildCtor(ctor, "", opts)
					} else {
						m, pn = buildCtor(ctor, ns, opts)
					}
					if pn == "" {
						pn = common.Recover(func() {
							name := xml.Name{Space: sp, Local: local}
							start := xml.StartElement{Name: name, Attr: []xml.Attr{{Name: xml.Name{Local: "type"}, Value: "get"}}}
							_ = m.HandleXMPP(&framedReader{toks: []xml.Token{xml.StartElement{Name: q}, xml.EndElement{Name: q}, xml.EndElement{Name: name}}, framing: "sep"}, &start)
						})
					}
					out := ".nop"
					switch {
					case pn != "" || len(seen) > 1:
						ok = false
					case len(seen) == 1:
						out = seen[0]
					}
					rows = append(rows, fmt.Sprintf("  ⟨.%s, %s, ⟨%s, %s⟩, %s⟩", ctor, leanStr(ns), leanStr(sp), leanStr(local), out))
				}
			}
		}
	}
	sb.WriteString("/-- (construction, namespace given to New, element name, the stanza router the element reached) -/\n")
	if ok {
		sb.WriteString("def routeTable : Option (List RouteRow) := some [\n" + strings.Join(rows, ",\n") + "]\n\n")
	} else {
		sb.WriteString("def routeTable : Option (List RouteRow) := none\n\n")
	}
	// ---- own addresses ---------------------------------------------------------------------------
	// jid.Parse's verdicts on the address forms of the probe, and what the real multiplexer does with a
	// stanza of every kind x to x from over {absent} + those forms: an error and no handler, or the
	// header of the stanza value the wildcard handler is handed
	forms := []string{"a@example.org/r", "A@EXAMPLE.org/R", "b@Example.NET", "@@", "a@/r", "example.org", ""}
	var prow []string
	for _, f := range forms {
		if f == "" {
			continue
		}
		if j, err := jid.Parse(f); err != nil {
			prow = append(prow, fmt.Sprintf("(%s, none)", leanStr(f)))
		} else {
			prow = append(prow, fmt.Sprintf("(%s, some %s)", leanStr(f), leanStr(j.String())))
		}
	}
	sb.WriteString("/-- the verdicts of the real jid.Parse on the address forms of the probe -/\ndef parseTable : Option (List (String × Option String)) := some [" + strings.Join(prow, ", ") + "]\n\n")
	opts := []*string{nil}
	for i := range forms {
		opts = append(opts, &forms[i])
	}
	rows = nil
	ok = true
	for _, kind := range []string{"i", "m", "p"} {
		local := map[string]string{"i": "iq", "m": "message", "p": "presence"}[kind]
		for _, to := range opts {
			for _, from := range opts {
				as := []xml.Attr{{Name: xml.Name{Local: "id"}, Value: "p1"}}
				if to != nil {
					as = append(as, xml.Attr{Name: xml.Name{Local: "to"}, Value: *to})
				}
				if from != nil {
					as = append(as, xml.Attr{Name: xml.Name{Local: "from"}, Value: *from})
				}
				var seen []hdr
				var herr error
				wrote := 0
				pn := common.Recover(func() {
					var o mux.Option
					switch kind {
					case "i":
						o = mux.IQFunc(stanza.IQType(""), xml.Name{}, func(v stanza.IQ, _ xmlstream.TokenReadEncoder, _ *xml.StartElement) error {
							seen = append(seen, hdr{string(v.Type), v.ID, v.To.String(), v.From.String()})
							return nil
						})
					case "m":
						o = mux.MessageFunc(stanza.NormalMessage, xml.Name{}, func(v stanza.Message, _ xmlstream.TokenReadEncoder) error {
							seen = append(seen, hdr{string(v.Type), v.ID, v.To.String(), v.From.String()})
							return nil
						})
					default:
						o = mux.PresenceFunc(stanza.PresenceType(""), xml.Name{}, func(v stanza.Presence, _ xmlstream.TokenReadEncoder) error {
							seen = append(seen, hdr{string(v.Type), v.ID, v.To.String(), v.From.String()})
							return nil
						})
					}
					m := mux.New(c08.NSClient, o)
					name := xml.Name{Space: c08.NSClient, Local: local}
					start := xml.StartElement{Name: name, Attr: as}
					fr := &framedReader{toks: []xml.Token{xml.StartElement{Name: q}, xml.EndElement{Name: q}, xml.EndElement{Name: name}}, framing: "sep"}
					herr = m.HandleXMPP(fr, &start)
					wrote = fr.wrote
				})
				res := "none"
				switch {
				case pn != "" || wrote > 0 || len(seen) > 1 || (herr == nil) != (len(seen) == 1):
					ok = false
				case len(seen) == 1:
					res = "some " + leanHdr(seen[0])
				}
				rows = append(rows, fmt.Sprintf("  ⟨%s, %s, %s⟩", leanKind(kind), leanAttrs(as), res))
			}
		}
	}
	sb.WriteString("/-- (kind, attributes of the start element, none = an error and no handler / the header of the stanza value) -/\n")
	if ok {
		sb.WriteString("def addrTable : Option (List AddrRow) := some [\n" + strings.Join(rows, ",\n") + "]\n\n")
	} else {
		sb.WriteString("def addrTable : Option (List AddrRow) := none\n\n")
	}
	sb.WriteString("end XmppModel.Generated.C14\n")
	return sb.String(), nil
}
