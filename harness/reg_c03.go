package main

import "verifharness/c03"

func init() { runners["C03"] = c03.Run; facts["C03"] = c03.Facts }
