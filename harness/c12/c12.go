// Package c12 drives stream-header printing / acceptance, the address checks across
// restarts and resource binding (property C12) through full session runs on a scripted
// connection.
//
// Protocol lines (strings hex, '-' = empty):
//
//	hdr <ws> <xmlns> <to> <from> <id> <lang> <emitted>  -> <name> <attrs>   | MALFORMED
//	    the header the library printed for these arguments; the answer is the start
//	    element read back from <emitted> (the harness reads it with encoding/xml, the
//	    driver with the model's tag reader): name = space|local, attrs sorted
//	    space=local=value;…  The driver prefixes UNFAITHFUL when what it reads is not what
//	    the arguments say.
//	neg <role> <ws> <s2s> <loc> <orig> <jids> <toks>…     -> <verdict>…
//	    a session (role i/r) whose peer sends these headers (token lists) one per stream
//	    (re)start; verdict per header: ok:<to>,<from>,<id>,<ver>,<lang>,<xmlns>/<outto>,<outfrom>,<outxmlns>
//	    or err:<class> (then nothing follows).  jids is the table raw=canonical|! of
//	    the address strings that occur (jid.Parse is a parameter of the model).
//	bindc <local> <reply> <a> <b>                          -> <resource> <err> <local'> <ready>
//	    initiator binding: local address, reply class with two arguments; the resource
//	    it asked for (NONE: no <resource/>), error class, address afterwards, Ready bit.
//	binds <s2s> <remote> <reqid> <reqres> <cb> <a>          -> <type> <id> <jid> <cond> <err> <ready> <cbargs>
//	    receiver binding: the request's id and resource (NONE: none), the callback kind.
package c12

import (
	"bytes"
	"context"
	"encoding/xml"
	"errors"
	"fmt"
	"io"
	"regexp"
	"sort"
	"strings"

	"mellium.im/xmlstream"
	"mellium.im/xmpp"
	"mellium.im/xmpp/jid"
	"mellium.im/xmpp/stanza"
	"mellium.im/xmpp/stream"
	"mellium.im/xmpp/websocket"

	"verifharness/common"
	nc "verifharness/negcommon"
)

const (
	nsStream  = "http://etherx.jabber.org/streams"
	nsFraming = "urn:ietf:params:xml:ns:xmpp-framing"
	nsBind    = "urn:ietf:params:xml:ns:xmpp-bind"
	nsRestart = "urn:verif:restart"
	nsXML     = "http://www.w3.org/XML/1998/namespace"
)

var errStop = errors.New("verif: stop")

func hx(s string) string { return common.HexS(s) }

func unhx(s string) (string, error) {
	b, err := common.UnHex(s)
	return string(b), err
}

// errClass extends the shared classification with what Expect / the negotiator return.
func errClass(err error) string {
	if err == nil {
		return "nil"
	}
	if errors.Is(err, errStop) {
		return "stop"
	}
	if errors.Is(err, nc.ErrWrite) {
		return "write"
	}
	if errors.Is(err, context.Canceled) {
		return "ctx"
	}
	var sp *stanza.Error
	if errors.As(err, &sp) && sp != nil {
		return "stanza:" + string(sp.Condition)
	}
	c := nc.ErrClass(err)
	if strings.HasPrefix(c, "other:") {
		msg := err.Error()
		switch {
		case strings.Contains(msg, "proc inst"):
			return "procinst"
		case strings.Contains(msg, "XML comment"):
			return "comment"
		case strings.Contains(msg, "XML directive"):
			return "directive"
		case strings.Contains(msg, "unknown stream level element"):
			return "unknownstream"
		case strings.Contains(msg, "unexpected stream restart"):
			return "restart"
		}
	}
	return c
}

// ---- negotiators -------------------------------------------------------------------------

func negotiator(ws bool, lang string, feats ...xmpp.StreamFeature) xmpp.Negotiator {
	return negotiatorTee(ws, lang, nil, nil, feats...)
}

func negotiatorTee(ws bool, lang string, teeIn, teeOut io.Writer, feats ...xmpp.StreamFeature) xmpp.Negotiator {
	cfg := func(*xmpp.Session, *xmpp.StreamConfig) xmpp.StreamConfig {
		return xmpp.StreamConfig{Lang: lang, Features: feats, TeeIn: teeIn, TeeOut: teeOut}
	}
	if ws {
		return websocket.Negotiator(cfg)
	}
	return xmpp.NewNegotiator(cfg)
}

type snap struct{ in, out stream.Info }

// restartFeature is negotiated without any I/O and asks for a stream restart; on its
// stopAt-th invocation it ends the session with errStop.  Every invocation records the
// stream infos (i.e. what the last header was read as).
func restartFeature(snaps *[]snap, stopAt int) xmpp.StreamFeature {
	return xmpp.StreamFeature{
		Name: xml.Name{Space: nsRestart, Local: "restart"},
		List: func(ctx context.Context, e xmlstream.TokenWriter, start xml.StartElement) (bool, error) {
			if err := e.EncodeToken(start); err != nil {
				return true, err
			}
			return true, e.EncodeToken(start.End())
		},
		Parse: func(ctx context.Context, d *xml.Decoder, start *xml.StartElement) (bool, interface{}, error) {
			return true, nil, d.Skip()
		},
		Negotiate: func(ctx context.Context, s *xmpp.Session, data interface{}) (xmpp.SessionState, io.ReadWriter, error) {
			*snaps = append(*snaps, snap{s.In(), s.Out()})
			if len(*snaps) >= stopAt {
				return 0, nil, errStop
			}
			return 0, s.Conn(), nil
		},
	}
}

func featuresXML(ws bool, inner string) string {
	if ws {
		return "<features xmlns='" + nsStream + "'>" + inner + "</features>"
	}
	return "<stream:features>" + inner + "</stream:features>"
}

// peerHeader builds a well-formed peer header.
func peerHeader(ws bool, xmlns, id, from, to string) string {
	if ws {
		var b strings.Builder
		b.WriteString("<open xmlns='" + nsFraming + "' version='1.0'")
		if id != "" {
			b.WriteString(" id='" + nc.Esc(id) + "'")
		}
		if from != "" {
			b.WriteString(" from='" + nc.Esc(from) + "'")
		}
		if to != "" {
			b.WriteString(" to='" + nc.Esc(to) + "'")
		}
		b.WriteString("/>")
		return b.String()
	}
	return nc.Header(xmlns, id, from, to)
}

// ---- hdr: what the library prints, read back ------------------------------------------

var idRe = regexp.MustCompile(` id='([0-9a-f]+)'`)

// canonStart renders a start element as the hdr answer.
func canonStart(t xml.StartElement) string {
	var as []string
	for _, a := range t.Attr {
		as = append(as, hx(a.Name.Space)+"="+hx(a.Name.Local)+"="+hx(a.Value))
	}
	sort.Strings(as)
	return hx(t.Name.Space) + "|" + hx(t.Name.Local) + " " + common.Join(as, ";")
}

type hdrCase struct {
	recv, ws, s2s bool
	loc, orig     string // our address / the peer's (receiving), or location / origin (initiating)
	lang          string
	// prior: what happened in this process BEFORE the session under test was created (see
	// runPrior); "" = nothing.  A header must not depend on it.
	prior string
}

// priors: histories that precede the session under test.  wf1: another session (same role and
// framing, other addresses / language / namespace) whose very first write fails; wf2: its second
// write fails; wfb: its connection accepts only the first 10 bytes; wfx: like wf1 on the other
// framing and role; ctx: its context is done from the start; ok: it got its header out.
var priors = []string{"wf1", "wf2", "wfb", "wfx", "ctx", "ok"}

// sharedPriors (round E): histories of the NEGOTIATOR VALUE the session under test is given.  A
// Negotiator "may be shared by many sessions" (negotiator.go), so nothing a session is told or
// tells may depend on which sessions the value served before.  The value first serves one (nk, nr,
// nf) or two (nkk) OTHER sessions: nk: the other kind (c2s <-> s2s), same role, success; nr: the
// other kind and the other role; nf: the other kind, its first write fails; nkk: the other kind,
// then the own kind, then the session under test; nsame: the same kind (control).
var sharedPriors = []string{"nk", "nr", "nf", "nkk", "nsame"}

func isSharedPrior(k string) bool { return strings.HasPrefix(k, "n") }

// runSharedPrior runs the history `kind` on the negotiator value neg.
func runSharedPrior(kind string, c hdrCase, neg xmpp.Negotiator) {
	type other struct{ s2s, recv, fail bool }
	var hist []other
	switch kind {
	case "nk":
		hist = []other{{!c.s2s, c.recv, false}}
	case "nr":
		hist = []other{{!c.s2s, !c.recv, false}}
	case "nf":
		hist = []other{{!c.s2s, c.recv, true}}
	case "nkk":
		hist = []other{{!c.s2s, c.recv, false}, {c.s2s, !c.recv, false}}
	case "nsame":
		hist = []other{{c.s2s, c.recv, false}}
	}
	loc, orig := jid.MustParse(victimLoc), jid.MustParse(victimOrig)
	for _, o := range hist {
		var st xmpp.SessionState
		xmlns := "jabber:client"
		if o.s2s {
			st |= xmpp.S2S
			xmlns = "jabber:server"
		}
		var conn *nc.Conn
		if o.recv {
			st |= xmpp.Received
			conn = nc.NewConn(nc.S(peerHeader(c.ws, xmlns, "", orig.String(), loc.String())))
		} else {
			conn = nc.NewConn()
		}
		if o.fail {
			conn.FailWriteCall = 1
		}
		_ = common.Recover(func() {
			_, _ = xmpp.NewSession(context.Background(), loc, orig, conn, st, neg)
		})
	}
}

const (
	victimLoc  = "victim.example"
	victimOrig = "secret@victim.example/s3cr3t"
)

// runPrior runs the history `kind` (one other session on a connection of its own).
func runPrior(kind string, c hdrCase) {
	if kind == "" {
		return
	}
	ws, recv := c.ws, c.recv
	if kind == "wfx" {
		ws, recv = !ws, !recv
	}
	loc, orig := jid.MustParse(victimLoc), jid.MustParse(victimOrig)
	st := xmpp.S2S
	var conn *nc.Conn
	if recv {
		st |= xmpp.Received
		conn = nc.NewConn(nc.S(peerHeader(ws, "jabber:server", "", orig.String(), loc.String())))
	} else {
		conn = nc.NewConn()
	}
	ctx, cancel := context.WithCancel(context.Background())
	defer cancel()
	switch kind {
	case "wf1", "wfx":
		conn.FailWriteCall = 1
	case "wf2":
		conn.FailWriteCall = 2
	case "wfb":
		conn.FailWriteAfter = 10
	case "ctx":
		cancel()
	}
	_ = common.Recover(func() {
		_, _ = xmpp.NewSession(ctx, loc, orig, conn, st, negotiator(ws, "de"))
	})
}

func jidOrZero(s string) (jid.JID, error) {
	if s == "" {
		return jid.JID{}, nil
	}
	return jid.Parse(s)
}

// runHdr runs a session far enough to make the library print one header, then reads it
// back (i) with encoding/xml, (ii) through the library's own header parser in a second
// session of the opposite role, and records the hdr line.
func runHdr(r *common.Run, c hdrCase, class string) {
	loc, e1 := jidOrZero(c.loc)
	orig, e2 := jidOrZero(c.orig)
	if e1 != nil || e2 != nil {
		return
	}
	xmlns := "jabber:client"
	var st xmpp.SessionState
	if c.s2s {
		xmlns = "jabber:server"
		st |= xmpp.S2S
	}
	var conn *nc.Conn
	var to, from string
	var sess *xmpp.Session
	neg := negotiator(c.ws, c.lang)
	if isSharedPrior(c.prior) {
		runSharedPrior(c.prior, c, neg)
	} else {
		runPrior(c.prior, c)
	}
	p := common.Recover(func() {
		if c.recv {
			// the peer (initiator) announces from=orig to=loc; we answer to=orig from=loc
			conn = nc.NewConn(nc.S(peerHeader(c.ws, xmlns, "", orig.String(), loc.String())))
			sess, _ = xmpp.NewSession(context.Background(), loc, orig, conn, st|xmpp.Received, neg)
			to, from = orig.String(), loc.String()
		} else {
			conn = nc.NewConn()
			sess, _ = xmpp.NewSession(context.Background(), loc, orig, conn, st, neg)
			to, from = loc.String(), orig.String()
		}
	})
	if p != "" {
		r.Fail("header-no-panic", "panic", nil, p)
		return
	}
	emitted := conn.Written()
	// the header is everything up to the features element (receiving side) or everything
	hdr := emitted
	if i := bytes.Index(emitted, []byte("<stream:features")); i > 0 {
		hdr = emitted[:i]
	} else if i := bytes.Index(emitted, []byte("<features")); i > 0 {
		hdr = emitted[:i]
	}
	if len(hdr) == 0 {
		r.Notes = append(r.Notes, "hdr: no header emitted for "+fmt.Sprint(c))
		return
	}
	// (i) the real decoder
	obs := "MALFORMED"
	id := ""
	got, gerr := firstStart(hdr)
	if gerr == nil {
		obs = canonStart(got)
		for _, a := range got.Attr {
			if a.Name.Space == "" && a.Name.Local == "id" {
				id = a.Value
			}
		}
	} else if m := idRe.FindSubmatch(hdr); m != nil {
		id = string(m[1])
	}
	// the stream id is random: the line carries the header with the id replaced by ID0
	lineID, lineHdr := id, hdr
	if id != "" {
		lineID = "ID0"
		lineHdr = bytes.Replace(hdr, []byte(id), []byte("ID0"), -1)
		if t, err := firstStart(lineHdr); err == nil {
			obs = canonStart(t)
		}
	}
	line := fmt.Sprintf("hdr %s %s %s %s %s %s %s", common.B(c.ws), hx(xmlns), hx(to), hx(from), hx(lineID), hx(c.lang), common.Hex(lineHdr))
	if c.prior != "" {
		line = "hdrp " + c.prior + line[3:]
	}
	r.Line(line, obs)
	r.Case(line, true, class)
	lines := []string{r.Prop + " " + line}

	// ---- oracle: the header is well-formed and says what it was asked to say ----
	key := func(field, v string) string {
		k := field
		for _, ch := range []string{"'", "\"", "&", "<", ">"} {
			if strings.Contains(v, ch) {
				k += ":special"
				break
			}
		}
		return k
	}
	if obs == "MALFORMED" {
		r.Fail("header-wellformed", key("attr", to+from+c.lang), lines, "the emitted stream header is not well-formed XML: "+string(hdr))
		return
	}
	av := func(space, local string) (string, bool) {
		for _, a := range got.Attr {
			if a.Name.Space == space && a.Name.Local == local {
				return a.Value, true
			}
		}
		return "", false
	}
	check := func(field, space, local, want string) {
		v, ok := av(space, local)
		if want == "" && !ok {
			return
		}
		if v != want {
			r.Fail("header-faithful", key(field, want), lines, fmt.Sprintf("%s: printed %q, a parser reads %q", field, want, v))
		}
	}
	check("to", "", "to", to)
	check("from", "", "from", from)
	check("lang", nsXML, "lang", c.lang)
	check("version", "", "version", "1.0")
	if c.ws {
		check("xmlns", "", "xmlns", nsFraming)
		if got.Name != (xml.Name{Space: nsFraming, Local: "open"}) {
			r.Fail("header-faithful", "name", lines, "not the framing's open element")
		}
	} else {
		check("xmlns", "", "xmlns", xmlns)
		if got.Name != (xml.Name{Space: nsStream, Local: "stream"}) {
			r.Fail("header-faithful", "name", lines, "not stream:stream")
		}
	}
	// the session's own record of what it sent (Session.Out(), a C12 observation point) names the
	// content namespace of ITS stream kind and the id it printed
	if sess != nil {
		if o := sess.Out(); o.XMLNS != xmlns {
			r.Fail("header-faithful", "out-info-xmlns", lines, fmt.Sprintf("Session.Out().XMLNS = %q on a stream whose content namespace is %q", o.XMLNS, xmlns))
		} else if o.ID != id {
			r.Fail("header-faithful", "out-info-id", lines, fmt.Sprintf("Session.Out().ID = %q, the header says %q", o.ID, id))
		}
	}
	if len(got.Attr) != len(uniqueAttrs(got.Attr)) {
		r.Fail("header-wellformed", "duplicate-attribute", lines, "an attribute occurs twice")
	}
	// everything this session wrote holds ONE stream-open element and at most one XML declaration
	// (the header is "a" well-formed stream open element, whatever happened to other sessions before)
	if opens, decls := countOpens(emitted); opens != 1 || decls > 1 {
		r.Fail("header-wellformed", "not-a-single-header", lines, fmt.Sprintf("%d stream-open elements and %d XML declarations were written: %s", opens, decls, emitted))
	}
	for _, leak := range []string{victimLoc, "s3cr3t"} {
		if c.prior != "" && bytes.Contains(emitted, []byte(leak)) {
			r.Fail("header-faithful", "other-session-data", lines, fmt.Sprintf("the header carries data of another session (%s): %s", leak, emitted))
		}
	}

	// (ii) the library's own parser as the peer
	var s2 *xmpp.Session
	p = common.Recover(func() {
		conn2 := nc.NewConn(nc.S(string(hdr)))
		if c.recv {
			// our header answers an initiator: parse it as an initiator would
			s2, _ = xmpp.NewSession(context.Background(), loc, orig, conn2, st, negotiator(c.ws, ""))
		} else {
			// (a receiving entity that expects exactly these addresses: the header must
			// be accepted for its information to be recorded)
			s2, _ = xmpp.NewSession(context.Background(), loc, orig, conn2, st|xmpp.Received, negotiator(c.ws, ""))
		}
	})
	if p != "" {
		r.Fail("header-no-panic", "peer-panic", lines, p)
		return
	}
	if s2 != nil {
		in := s2.In()
		if in.To.String() != to {
			r.Fail("header-peer-recovers", key("to", to), lines, fmt.Sprintf("to: sent %q, the library reads %q", to, in.To.String()))
		}
		if in.From.String() != from {
			r.Fail("header-peer-recovers", key("from", from), lines, fmt.Sprintf("from: sent %q, the library reads %q", from, in.From.String()))
		}
		if in.Lang != c.lang {
			r.Fail("header-peer-recovers", key("lang", c.lang), lines, fmt.Sprintf("lang: sent %q, the library reads %q", c.lang, in.Lang))
		}
		if in.ID != id {
			r.Fail("header-peer-recovers", "id", lines, fmt.Sprintf("id: sent %q, the library reads %q", id, in.ID))
		}
		if in.Version != stream.DefaultVersion {
			r.Fail("header-peer-recovers", "version", lines, "version not recovered")
		}
		wantNS := xmlns
		if c.ws {
			wantNS = nsFraming
		}
		if in.XMLNS != wantNS {
			r.Fail("header-peer-recovers", "xmlns", lines, fmt.Sprintf("xmlns: sent %q, the library reads %q", wantNS, in.XMLNS))
		}
	}
}

// countOpens counts the stream-open elements (either framing) and XML declarations in what a
// session wrote.
func countOpens(b []byte) (opens, decls int) {
	d := xml.NewDecoder(bytes.NewReader(b))
	for {
		tok, err := d.RawToken()
		if err != nil {
			return
		}
		switch t := tok.(type) {
		case xml.StartElement:
			if (t.Name.Space == "stream" && t.Name.Local == "stream") || t.Name.Local == "open" {
				opens++
			}
		case xml.ProcInst:
			if t.Target == "xml" {
				decls++
			}
		}
	}
}

func firstStart(b []byte) (xml.StartElement, error) {
	d := xml.NewDecoder(bytes.NewReader(b))
	for {
		tok, err := d.Token()
		if err != nil {
			return xml.StartElement{}, err
		}
		if t, ok := tok.(xml.StartElement); ok {
			return t.Copy(), nil
		}
	}
}

func enumerate(alpha []string, n int, f func([]string)) {
	cur := make([]string, n)
	var rec func(i int)
	rec = func(i int) {
		if i == n {
			f(append([]string(nil), cur...))
			return
		}
		for _, a := range alpha {
			cur[i] = a
			rec(i + 1)
		}
	}
	rec(0)
}

func uniqueAttrs(as []xml.Attr) map[xml.Name]bool {
	m := map[xml.Name]bool{}
	for _, a := range as {
		m[a.Name] = true
	}
	return m
}

// runTag compares the model's start-tag reader with encoding/xml on one start tag.
func runTag(r *common.Run, tag string, class string) {
	obs := "MALFORMED"
	if t, err := firstStart([]byte(tag)); err == nil {
		obs = canonStart(t)
	}
	line := "tag " + common.HexS(tag)
	r.Line(line, obs)
	r.Case(line, obs != "MALFORMED", class)
}

// ---- neg: header acceptance and address checks over restarts ---------------------------

type negCase struct {
	recv, ws, s2s bool
	loc, orig     string   // addresses the session is created with ("" = not known)
	hdrs          []string // raw bytes of the peer's successive headers
	// hostile environment (operation "nege"): tee: StreamConfig.TeeIn/TeeOut are set;
	// budget >= 0: the connection accepts that many writes and fails every later one;
	// cancel >= 0: the context is done before the header with that index is awaited
	env            bool
	tee            bool
	budget, cancel int
}

func infoStr(i stream.Info) string {
	return fmt.Sprintf("%s,%s,%s,%s,%s,%s", hx(i.To.String()), hx(i.From.String()), hx(i.ID), hx(i.Version.String()), hx(i.Lang), hx(i.XMLNS))
}

// tokensOf tokenises a peer chunk standalone; a syntax error ends the list with the
// marker token "X".
func tokensOf(b string) string {
	d := xml.NewDecoder(strings.NewReader(b))
	var l []string
	for {
		tok, err := d.Token()
		if err != nil {
			var se *xml.SyntaxError
			if errors.As(err, &se) && !strings.Contains(se.Msg, "unexpected EOF") {
				l = append(l, "X")
			}
			break
		}
		l = append(l, common.EncTok(tok))
		if len(l) > 40 {
			break
		}
	}
	return common.Join(l, ";")
}

var attrValRe = regexp.MustCompile(`\s(?:to|from)=(?:'([^']*)'|"([^"]*)")`)

func runNeg(r *common.Run, c negCase, class string) {
	loc, e1 := jidOrZero(c.loc)
	orig, e2 := jidOrZero(c.orig)
	if e1 != nil || e2 != nil || len(c.hdrs) == 0 {
		return
	}
	var st xmpp.SessionState
	if c.s2s {
		st |= xmpp.S2S
	}
	var snaps []snap
	feat := restartFeature(&snaps, len(c.hdrs))
	sel := "<restart xmlns='" + nsRestart + "'/>"
	var chunks []nc.Chunk
	for _, h := range c.hdrs {
		chunks = append(chunks, nc.S(h))
		if c.recv {
			chunks = append(chunks, nc.S(sel))
		} else {
			chunks = append(chunks, nc.S(featuresXML(c.ws, sel)))
		}
	}
	ctx, cancelCtx := context.WithCancel(context.Background())
	defer cancelCtx()
	if c.env && c.cancel >= 1 {
		// the context is done before header #cancel is awaited: cancel when the chunk that
		// precedes that header (the feature selection of the previous stream) is delivered
		k := 2*c.cancel - 1
		if k < len(chunks) {
			inner := chunks[k]
			chunks[k] = nc.Chunk{Dyn: func([]byte) []byte { cancelCtx(); return inner.Static }}
		}
	}
	if c.env && c.cancel == 0 {
		cancelCtx()
	}
	conn := nc.NewConn(chunks...)
	if c.env && c.budget >= 0 {
		conn.FailWriteCall = c.budget + 1
	}
	var teeIn, teeOut bytes.Buffer
	neg := negotiator(c.ws, "", feat)
	if c.env && c.tee {
		neg = negotiatorTee(c.ws, "", &teeIn, &teeOut, feat)
	}
	var err error
	var sess *xmpp.Session
	p := common.Recover(func() {
		if c.recv {
			sess, err = xmpp.NewSession(ctx, loc, orig, conn, st|xmpp.Received, neg)
		} else {
			sess, err = xmpp.NewSession(ctx, loc, orig, conn, st, neg)
		}
	})
	// jid table of every to/from value that occurs
	table := map[string]string{}
	addJ := func(raw string) {
		if raw == "" {
			return
		}
		if j, err := jid.Parse(raw); err == nil {
			table[raw] = hx(j.String())
		} else {
			table[raw] = "!"
		}
	}
	var toks []string
	for _, h := range c.hdrs {
		toks = append(toks, common.HexS(h)+"|"+tokensOf(h))
		d := xml.NewDecoder(strings.NewReader(h))
		for {
			tok, err := d.Token()
			if err != nil {
				break
			}
			if t, ok := tok.(xml.StartElement); ok {
				for _, a := range t.Attr {
					if a.Name.Space == "" && (a.Name.Local == "to" || a.Name.Local == "from") {
						addJ(a.Value)
					}
				}
				break
			}
		}
	}
	var tl []string
	for k, v := range table {
		tl = append(tl, hx(k)+"="+v)
	}
	sort.Strings(tl)
	role := "i"
	if c.recv {
		role = "r"
	}
	line := fmt.Sprintf("neg %s %s %s %s %s %s %s", role, common.B(c.ws), common.B(c.s2s), hx(c.loc), hx(c.orig), common.Join(tl, ","), strings.Join(toks, " "))
	if c.env {
		b, k := "-", "-"
		if c.budget >= 0 {
			b = fmt.Sprint(c.budget)
		}
		if c.cancel >= 0 {
			k = fmt.Sprint(c.cancel)
		}
		line = fmt.Sprintf("nege %s %s %s %s %s %s %s %s %s %s", role, common.B(c.ws), common.B(c.s2s), hx(c.loc), hx(c.orig), common.Join(tl, ","), common.B(c.tee), b, k, strings.Join(toks, " "))
	}
	if p != "" {
		r.Line(line, "PANIC")
		r.Case(line, true, class+":panic")
		r.Fail("negotiation-no-panic", "panic", []string{r.Prop + " " + line}, p)
		return
	}
	// what the library wrote: one header per accepted (receiving) / attempted (initiating) stream
	streams, _ := nc.ParseWritten(conn.Written())
	outOf := func(k int) string {
		if k >= len(streams) {
			return "-,-,-"
		}
		var to, from, ns string
		for _, a := range streams[k].Header.Attr {
			switch {
			case a.Name.Space == "" && a.Name.Local == "to":
				to = a.Value
			case a.Name.Space == "" && a.Name.Local == "from":
				from = a.Value
			case a.Name.Space == "" && a.Name.Local == "xmlns":
				ns = a.Value
			}
		}
		return hx(to) + "," + hx(from) + "," + hx(ns)
	}
	var verdicts []string
	for k, s := range snaps {
		verdicts = append(verdicts, "ok:"+infoStr(s.in)+"/"+outOf(k))
	}
	ec := errClass(err)
	if ec != "stop" {
		verdicts = append(verdicts, "err:"+ec)
	}
	// the addresses the session reports when the constructor returns
	finalTo, finalFrom := "?", "?"
	if sess != nil {
		finalTo, finalFrom = sess.In().To.String(), sess.In().From.String()
	}
	verdicts = append(verdicts, "final:"+hx(finalTo)+","+hx(finalFrom))
	obs := strings.Join(verdicts, " ")
	r.Line(line, obs)
	r.Case(line, true, class+":"+ec)
	lines := []string{r.Prop + " " + line}

	// ---- oracle: a refused header never replaces the established addresses ----
	if sess != nil {
		wantTo, wantFrom := loc.String(), orig.String()
		if !c.recv {
			wantTo, wantFrom = orig.String(), loc.String()
		}
		if n := len(snaps); n > 0 {
			wantTo, wantFrom = snaps[n-1].in.To.String(), snaps[n-1].in.From.String()
		}
		// a header that passed all checks but whose answer could not be written, or after
		// which the session was stopped, is an accepted header: only refusals count
		refused := ec != "stop" && ec != "write" && ec != "nil"
		if refused && (finalTo != wantTo || finalFrom != wantFrom) {
			r.Fail("refused-header-keeps-addresses", "in-info:"+strings.SplitN(ec, ":", 2)[0], lines,
				fmt.Sprintf("the header was refused (%s) but the session now reports To=%q From=%q, established were To=%q From=%q", ec, finalTo, finalFrom, wantTo, wantFrom))
		}
		if sess.LocalAddr().String() != finalTo || sess.RemoteAddr().String() != finalFrom {
			r.Fail("refused-header-keeps-addresses", "localaddr-differs-from-in", lines, "LocalAddr/RemoteAddr differ from In().To/From")
		}
	}
	if c.env && c.tee {
		if !bytes.Equal(teeOut.Bytes(), conn.Written()) {
			r.Fail("tee-faithful", "out", lines, fmt.Sprintf("TeeOut got %q, the connection %q", teeOut.String(), conn.Written()))
		}
		if !bytes.Equal(teeIn.Bytes(), conn.R.Bytes()) {
			r.Fail("tee-faithful", "in", lines, fmt.Sprintf("TeeIn got %q, the connection delivered %q", teeIn.String(), conn.R.String()))
		}
	}
	if c.env {
		// with a hostile environment the generator's ground truth for acceptance does not apply
		return
	}

	// ---- oracle (independent of the model), on well-understood inputs only: see checkNeg
	checkNeg(r, c, snaps, ec, lines)
}

// hdrFacts is what the generator knows about a header it built (ground truth for the
// oracle, independent of both the library's parser and the model).
type hdrFacts struct {
	open      bool // the stream-open element of the framing
	streamErr string
	version   string
	xmlns     string
	id        string
	to, from  string // raw values ("" = absent)
	junk      string // "" | what precedes the header
	lang      string // value of xml:lang ("" = absent)
}

var genFacts = map[string]hdrFacts{} // key: framing flag + rendered header

func checkNeg(r *common.Run, c negCase, snaps []snap, ec string, lines []string) {
	// expected verdict of every header from the generator's ground truth
	loc, orig := c.loc, c.orig
	for k, h := range c.hdrs {
		f, ok := genFacts[common.B(c.ws)+h]
		if !ok {
			return
		}
		accepted := k < len(snaps)
		reason := ""
		switch {
		case f.junk != "":
			reason = "junk-before-header"
		case f.streamErr != "":
			reason = "stream-error"
		case !f.open:
			reason = "not-stream-open"
		case !isOneZero(f.version):
			reason = "version"
		case !c.ws && f.xmlns != "jabber:client" && f.xmlns != "jabber:server":
			reason = "content-namespace"
		case !c.recv && f.id == "":
			reason = "no-id"
		}
		canon := func(raw string) (string, bool) {
			if raw == "" {
				return "", true
			}
			j, err := jid.Parse(raw)
			if err != nil {
				return "", false
			}
			return j.String(), true
		}
		hto, okTo := canon(f.to)
		hfrom, okFrom := canon(f.from)
		if reason == "" && (!okTo || !okFrom) {
			reason = "address-syntax"
		}
		if reason == "" {
			// address consistency with what is established
			if c.recv {
				if f.from != "" && orig != "" && hfrom != orig {
					reason = "origin-changed"
				}
				if f.from != "" && orig == "" && c.s2s {
					reason = "origin-changed"
				}
				if f.to != "" && loc != "" && hto != loc {
					reason = "location-changed"
				}
			} else {
				if f.from != "" && hfrom != loc {
					reason = "location-changed"
				}
				if f.to != "" && hto != orig {
					reason = "origin-changed"
				}
			}
		}
		if reason != "" {
			if accepted {
				r.Fail("header-rejected", reason, lines, fmt.Sprintf("header %d (%s) was accepted: %s", k+1, reason, h))
			} else if reason == "stream-error" && k == len(snaps) && ec != "stream:"+f.streamErr {
				r.Fail("stream-error-returned", "class", lines, fmt.Sprintf("a stream error %s sent in place of header %d is returned as %s", f.streamErr, k+1, ec))
			}
			return
		}
		if !accepted {
			r.Fail("header-accepted", "valid-header-refused:"+ec, lines, fmt.Sprintf("header %d is valid and consistent but was refused (%s): %s", k+1, ec, h))
			return
		}
		// accepted: the recorded info is the header's
		in := snaps[k].in
		if f.lang != in.Lang {
			r.Fail("header-info", "lang", lines, fmt.Sprintf("header %d: xml:lang is %q, recorded %q", k+1, f.lang, in.Lang))
		}
		if f.id != in.ID || in.Version.String() != "1.0" || (f.to != "" && in.To.String() != hto) || (f.from != "" && in.From.String() != hfrom) {
			r.Fail("header-info", "info", lines, fmt.Sprintf("header %d accepted but recorded as %s", k+1, infoStr(in)))
		}
		// a header that names no to / from (absent OR present but empty) leaves the address that is
		// already established for that direction in place
		estTo, estFrom := orig, loc
		if c.recv {
			estTo, estFrom = loc, orig
		}
		if cj, ok := canon(estTo); ok && f.to == "" && in.To.String() != cj {
			r.Fail("header-info", "established-address-erased", lines, fmt.Sprintf("header %d names no to; In().To was %q and is now %q", k+1, cj, in.To.String()))
		}
		if cj, ok := canon(estFrom); ok && f.from == "" && in.From.String() != cj {
			r.Fail("header-info", "established-address-erased", lines, fmt.Sprintf("header %d names no from; In().From was %q and is now %q", k+1, cj, in.From.String()))
		}
		// what is established now
		if c.recv {
			if f.from != "" {
				orig = hfrom
			}
			if f.to != "" {
				loc = hto
			}
		}
	}
}

// isOneZero: the version string denotes 1.0 (two unsigned decimal numbers, compared
// numerically, RFC 6120 4.7.5).
func isOneZero(v string) bool {
	p := strings.Split(v, ".")
	if len(p) != 2 {
		return false
	}
	num := func(s string) (int, bool) {
		if s == "" || len(s) > 6 {
			return 0, false
		}
		n := 0
		for _, c := range s {
			if c < '0' || c > '9' {
				return 0, false
			}
			n = n*10 + int(c-'0')
		}
		return n, true
	}
	a, ok1 := num(p[0])
	b, ok2 := num(p[1])
	return ok1 && ok2 && a == 1 && b == 0
}

// buildAllFacts regenerates the ground truth of every deterministic header variant (for
// replays).
func buildAllFacts() {
	nearMissCases(nil, 64)
	for _, ws := range []bool{false, true} {
		for _, recv := range []bool{false, true} {
			from, to := locA, origA
			if recv {
				from, to = origA, locA
			}
			headerVariants(ws, from, to)
			fixOpenFacts(ws)
			pool := []string{"", from, to, "other.example", "user@example.net/r"}
			for _, t := range pool {
				for _, f := range pool {
					mkHdr(ws, hv{open: true, version: "1.0", xmlns: "jabber:client", id: "s1", to: t, from: f})
				}
			}
		}
	}
}

// ---- near-miss addresses (round D) ----------------------------------------------------------

// nearMisses returns addresses that differ from addr but are as close to it as an address can
// be: every other way to cut the SAME octets into localpart / domainpart / resourcepart (the
// separators move, nothing else changes), the address with its last octet dropped, with one
// octet appended, bare vs full, and the parts one position over.  All are valid addresses with a
// different canonical form (checked here with jid.Parse; whatever the library later says about
// equality is not consulted).
func nearMisses(addr string, max int) []string {
	j, err := jid.Parse(addr)
	if err != nil {
		return nil
	}
	canon := j.String()
	data := j.Localpart() + j.Domainpart() + j.Resourcepart()
	seen := map[string]bool{canon: true}
	// the re-cuts by WHICH boundary moved: only domain/resource (the localpart is the same), only
	// local/domain (the resourcepart is the same), both
	var cutsDR, cutsLD, cutsBoth, others []string
	add := func(dst *[]string, raw string) {
		c, err := jid.Parse(raw)
		if err != nil || seen[c.String()] || c.String() != raw {
			return
		}
		seen[raw] = true
		*dst = append(*dst, raw)
	}
	ll0, dl0 := len(j.Localpart()), len(j.Domainpart())
	for ll := 0; ll < len(data); ll++ {
		for dl := 1; ll+dl <= len(data); dl++ {
			raw := data[ll : ll+dl]
			if ll > 0 {
				raw = data[:ll] + "@" + raw
			}
			if ll+dl < len(data) {
				raw += "/" + data[ll+dl:]
			}
			if c, err := jid.Parse(raw); err == nil && c.Localpart()+c.Domainpart()+c.Resourcepart() == data {
				switch {
				case ll == ll0:
					add(&cutsDR, raw)
				case ll+dl == ll0+dl0:
					add(&cutsLD, raw)
				default:
					add(&cutsBoth, raw)
				}
			}
		}
	}
	add(&others, canon[:len(canon)-1])
	add(&others, canon+"x")
	if j.Resourcepart() != "" {
		add(&others, j.Bare().String())
	} else {
		add(&others, canon+"/r")
	}
	if j.Localpart() != "" {
		add(&others, j.Domain().String())
	}
	out := append([]string(nil), others...)
	spread := func(l []string, n int) {
		if n < 1 {
			n = 1
		}
		step := 1
		if len(l) > n {
			step = (len(l) + n - 1) / n
		}
		for i := 0; i < len(l); i += step {
			out = append(out, l[i])
		}
	}
	spread(cutsDR, max/2)
	spread(cutsLD, max/4)
	spread(cutsBoth, max/4)
	return out
}

// established address pairs (location, origin) for the near-miss cases
var nearPairs = [][2]string{
	{"example.community", "juliet@example.community"},
	{"chat.example.org", "ab@c.example/res"},
}

// nearMissCases runs (or, with run == nil, only registers the ground truth of) the headers whose
// to / from is a near miss of the established address.
func nearMissCases(r *common.Run, max int) {
	for _, pair := range nearPairs {
		loc, orig := pair[0], pair[1]
		for _, ws := range []bool{false, true} {
			for _, recv := range []bool{false, true} {
				from, to := loc, orig
				if recv {
					from, to = orig, loc
				}
				good := mkHdr(ws, hv{open: true, version: "1.0", xmlns: "jabber:client", id: "s1", to: to, from: from})
				var vs []string
				for _, nm := range nearMisses(from, max) {
					vs = append(vs, mkHdr(ws, hv{open: true, version: "1.0", xmlns: "jabber:client", id: "s1", to: to, from: nm}))
				}
				for _, nm := range nearMisses(to, max) {
					vs = append(vs, mkHdr(ws, hv{open: true, version: "1.0", xmlns: "jabber:client", id: "s1", to: nm, from: from}))
				}
				if r == nil {
					continue
				}
				for _, s2s := range []bool{false, true} {
					runNeg(r, negCase{recv: recv, ws: ws, s2s: s2s, loc: loc, orig: orig, hdrs: []string{good}}, "neg-near-good")
					for _, h := range vs {
						runNeg(r, negCase{recv: recv, ws: ws, s2s: s2s, loc: loc, orig: orig, hdrs: []string{h}}, "neg-near-single")
						runNeg(r, negCase{recv: recv, ws: ws, s2s: s2s, loc: loc, orig: orig, hdrs: []string{good, h}}, "neg-near-restart")
						if recv {
							// addresses learned from the first header, then the near miss
							runNeg(r, negCase{recv: recv, ws: ws, s2s: s2s, hdrs: []string{good, h}}, "neg-near-learned")
						}
					}
				}
			}
		}
	}
}

// canonJ is the jid field of a line: hex of the canonical form, or "!" when jid.Parse
// refuses the string.
func canonJ(raw string) string {
	j, err := jid.Parse(raw)
	if err != nil {
		return "!"
	}
	return hx(j.String())
}

// ---- bind ----------------------------------------------------------------------------------

var iqIDRe = regexp.MustCompile(`<iq[^>]*\sid="([^"]*)"`)

// decoy (round E): an attribute of the <iq> start element that has the local name of one of the
// stanza's own attributes but lives in a namespace (prefix p: bound to a foreign namespace, the
// reserved xml: prefix, or a prefix bound to the stanza's own content namespace), placed before or
// after the plain attributes.  Such an attribute is a different attribute (Namespaces in XML 6.2): a
// request / reply with decoys must be treated exactly like the one without.
type decoy struct {
	prefix, local, value string
	after                bool
}

var decoyValues = map[string][]string{
	"id": {"evil"}, "type": {"error", "get"}, "to": {"decoy.example", "a@@b"}, "from": {"decoy@decoy.example/d", "a@@b"},
}

func allDecoys() []*decoy {
	var out []*decoy
	for _, pf := range []string{"p", "xml", "own"} {
		for _, lo := range []string{"id", "type", "to", "from"} {
			for _, v := range decoyValues[lo] {
				for _, after := range []bool{false, true} {
					out = append(out, &decoy{pf, lo, v, after})
				}
			}
		}
	}
	return out
}

// render returns the text to put before and after the plain attributes
func (d *decoy) render(contentNS string) (pre, post string) {
	if d == nil {
		return "", ""
	}
	var t string
	switch d.prefix {
	case "p":
		t = " xmlns:p='urn:example:p' p:" + d.local + "='" + nc.Esc(d.value) + "'"
	case "xml":
		t = " xml:" + d.local + "='" + nc.Esc(d.value) + "'"
	default:
		t = " xmlns:own='" + contentNS + "' own:" + d.local + "='" + nc.Esc(d.value) + "'"
	}
	if d.after {
		return "", t
	}
	return t, ""
}

// withDecoy inserts the decoy into the start tag of an <iq ...> document (attribute values are
// escaped, so the first '>' ends the start tag)
func withDecoy(doc []byte, d *decoy, contentNS string) []byte {
	if d == nil || !bytes.HasPrefix(doc, []byte("<iq ")) {
		return doc
	}
	pre, post := d.render(contentNS)
	end := bytes.IndexByte(doc, '>')
	if end < 0 {
		return doc
	}
	if doc[end-1] == '/' {
		end--
	}
	out := append([]byte("<iq"+pre), doc[3:end]...)
	out = append(out, post...)
	return append(out, doc[end:]...)
}

// startAttrs renders the attributes of the first start element of doc as the model reads them:
// space=local=value (hex), in document order; the dynamic request id is written ID.
func startAttrs(doc []byte, id string) string {
	t, err := firstStart(doc)
	if err != nil {
		return "!"
	}
	var as []string
	for _, a := range t.Attr {
		v := a.Value
		if id != "" {
			v = strings.Replace(v, id, "ID", -1)
		}
		as = append(as, hx(a.Name.Space)+"="+hx(a.Name.Local)+"="+hx(v))
	}
	return common.Join(as, ";")
}

func runBindClient(r *common.Run, local, reply, a, b string, class string) {
	runBindClientD(r, local, reply, a, b, nil, class)
}

func runBindClientD(r *common.Run, local, reply, a, b string, dec *decoy, class string) {
	lj, err := jid.Parse(local)
	if err != nil {
		return
	}
	domain := lj.Domain()
	mk := func(w []byte) []byte {
		id := ""
		if m := iqIDRe.FindSubmatch(w); m != nil {
			id = string(m[1])
		}
		switch reply {
		case "res":
			return []byte("<iq type='result' id='" + id + "'><bind xmlns='" + nsBind + "'><jid>" + nc.Esc(a) + "</jid></bind></iq>")
		case "resnojid":
			return []byte("<iq type='result' id='" + id + "'><bind xmlns='" + nsBind + "'/></iq>")
		case "resnobind":
			return []byte("<iq type='result' id='" + id + "'/>")
		case "wrongid":
			return []byte("<iq type='result' id='x" + id + "'><bind xmlns='" + nsBind + "'><jid>" + nc.Esc(a) + "</jid></bind></iq>")
		case "noid":
			return []byte("<iq type='result'><bind xmlns='" + nsBind + "'><jid>" + nc.Esc(a) + "</jid></bind></iq>")
		case "err":
			return []byte("<iq type='error' id='" + id + "'><error type='cancel'><" + a + " xmlns='urn:ietf:params:xml:ns:xmpp-stanzas'/></error></iq>")
		case "errempty":
			return []byte("<iq type='error' id='" + id + "'/>")
		case "type":
			return []byte("<iq type='" + a + "' id='" + id + "'><bind xmlns='" + nsBind + "'><jid>" + nc.Esc(b) + "</jid></bind></iq>")
		case "noniq":
			return []byte("<message id='" + id + "'/>")
		case "nsiq":
			return []byte("<iq xmlns='jabber:server' type='result' id='" + id + "'><bind xmlns='" + nsBind + "'><jid>" + nc.Esc(a) + "</jid></bind></iq>")
		case "space":
			return []byte(" ")
		case "trunc":
			// a reply that stops in the middle of the address
			return []byte("<iq type='result' id='" + id + "'><bind xmlns='" + nsBind + "'><jid>" + nc.Esc(a))
		case "eof":
			return nil
		}
		return nil
	}
	var sentReply []byte
	var sentID string
	mkD := func(w []byte) []byte {
		if m := iqIDRe.FindSubmatch(w); m != nil {
			sentID = string(m[1])
		}
		sentReply = withDecoy(mk(w), dec, "jabber:client")
		return sentReply
	}
	conn := nc.NewConn(
		nc.S(nc.Header("jabber:client", "sid1", domain.String(), lj.String())),
		nc.S("<stream:features><bind xmlns='"+nsBind+"'/></stream:features>"),
		nc.Chunk{Dyn: mkD},
	)
	var s *xmpp.Session
	var serr error
	p := common.Recover(func() {
		s, serr = xmpp.NewSession(context.Background(), domain, lj, conn, xmpp.Secure|xmpp.Authn, negotiator(false, "", xmpp.BindResource()))
		// a typed nil error must not blow up in the caller's hands
		if serr != nil {
			_ = serr.Error()
		}
	})
	line := fmt.Sprintf("bindc %s %s %s %s %s %s", hx(local), reply, hx(a), hx(b), canonJ(a), canonJ(b))
	if dec != nil {
		// the reply's start element as sent: the model reads the stanza's own attributes from it
		line = fmt.Sprintf("bindca %s %s %s %s %s %s %s:%s:%s:%v %s", hx(local), reply, hx(a), hx(b), canonJ(a), canonJ(b),
			dec.prefix, dec.local, hx(dec.value), dec.after, startAttrs(sentReply, sentID))
	}
	lines := []string{r.Prop + " " + line}
	if p != "" {
		r.Line(line, "PANIC")
		r.Case(line, true, class+":panic")
		r.Fail("bind-no-panic", "client:"+reply, lines, p)
		return
	}
	// the request
	streams, _ := nc.ParseWritten(conn.Written())
	resource := "NOREQ"
	reqType := ""
	if len(streams) > 0 {
		for _, e := range streams[0].Elems {
			if e.Name.Local == "iq" {
				reqType, _ = e.AttrVal("type")
				resource = "NOBIND"
				if bd, ok := e.Child("bind"); ok && bd.Name.Space == nsBind {
					resource = "NONE"
					if re, ok := bd.Child("resource"); ok {
						resource = hx(re.Text)
						if re.Text == "" {
							resource = "EMPTY"
						}
					}
				}
			}
		}
	}
	ec := errClass(serr)
	for _, raw := range []string{a, b} {
		// an address the reply carries and jid.Parse refuses: the decoder's error is that parse error
		if _, perr := jid.Parse(raw); perr != nil && serr != nil && strings.Contains(serr.Error(), perr.Error()) {
			ec = "jiderr"
		}
	}
	after := ""
	ready := false
	if s != nil {
		after = s.LocalAddr().String()
		ready = s.State()&xmpp.Ready != 0
	}
	obs := fmt.Sprintf("%s %s %s %s", resource, ec, hx(after), common.B(ready))
	r.Line(line, obs)
	r.Case(line, true, class+":"+ec)

	// ---- oracle ----
	want := "NONE"
	if lj.Resourcepart() != "" {
		want = hx(lj.Resourcepart())
	}
	if resource != want || reqType != "set" {
		k := "resource-not-requested"
		if lj.Resourcepart() == "" {
			k = "resource-invented"
		}
		r.Fail("bind-request", k, lines, fmt.Sprintf("asked for resource %s (type %q), own resourcepart is %q", resource, reqType, lj.Resourcepart()))
	}
	assigned, aerr := jid.Parse(a)
	switch {
	case reply == "trunc":
		if serr == nil || ready || after != lj.String() {
			r.Fail("bind-adopt", "bad-reply-accepted:trunc", lines, fmt.Sprintf("truncated reply: err=%s ready=%v local=%q", ec, ready, after))
		}
	case reply == "res" && aerr == nil:
		if serr != nil || !ready || after != assigned.String() {
			r.Fail("bind-adopt", "assigned-not-reported", lines, fmt.Sprintf("server assigned %q; err=%s ready=%v local=%q", a, ec, ready, after))
		}
	default:
		if serr == nil || ready {
			r.Fail("bind-adopt", "bad-reply-accepted:"+reply, lines, fmt.Sprintf("reply class %s: err=%s ready=%v local=%q", reply, ec, ready, after))
		}
		if after != lj.String() {
			r.Fail("bind-adopt", "address-changed:"+reply, lines, fmt.Sprintf("reply class %s changed the local address from %q to %q", reply, lj.String(), after))
		}
	}
}

func runBindServer(r *common.Run, s2s bool, remote, reqid, reqres, cb, a string, class string) {
	runBindServerTF(r, s2s, remote, reqid, reqres, cb, a, "", "", class)
}

// runBindServerTF: the request additionally carries to / from attributes ("" = absent).
func runBindServerTF(r *common.Run, s2s bool, remote, reqid, reqres, cb, a, reqTo, reqFrom string, class string) {
	runBindServerD(r, s2s, remote, reqid, reqres, cb, a, reqTo, reqFrom, nil, class)
}

func runBindServerD(r *common.Run, s2s bool, remote, reqid, reqres, cb, a, reqTo, reqFrom string, dec *decoy, class string) {
	rj, err := jid.Parse(remote)
	if err != nil {
		return
	}
	domain := rj.Domain()
	xmlns := "jabber:client"
	var st xmpp.SessionState
	if s2s {
		xmlns = "jabber:server"
		st |= xmpp.S2S
	}
	var cbArgs []string
	var cbErr error
	cbJid := "-"
	note := func(j jid.JID, err error) (jid.JID, error) {
		if err != nil {
			if _, ok := err.(stanza.Error); !ok {
				cbErr = err
				cbJid = "!"
			}
		} else {
			cbJid = hx(j.String())
		}
		return j, err
	}
	var server func(jid.JID, string) (jid.JID, error)
	switch cb {
	case "nil":
	case "jid":
		server = func(j jid.JID, res string) (jid.JID, error) {
			cbArgs = append(cbArgs, hx(j.String())+"/"+hx(res))
			return note(jid.Parse(a))
		}
	case "echo":
		server = func(j jid.JID, res string) (jid.JID, error) {
			cbArgs = append(cbArgs, hx(j.String())+"/"+hx(res))
			if res == "" {
				res = "fallback"
			}
			return note(j.WithResource(res))
		}
	case "serr":
		server = func(j jid.JID, res string) (jid.JID, error) {
			cbArgs = append(cbArgs, hx(j.String())+"/"+hx(res))
			return jid.JID{}, stanza.Error{Type: stanza.Cancel, Condition: stanza.Condition(a)}
		}
	case "err":
		server = func(j jid.JID, res string) (jid.JID, error) {
			cbArgs = append(cbArgs, hx(j.String())+"/"+hx(res))
			return note(jid.JID{}, errors.New("callback failed"))
		}
	default:
		return
	}
	inner := "<bind xmlns='" + nsBind + "'/>"
	if reqres != "NONE" {
		inner = "<bind xmlns='" + nsBind + "'><resource>" + nc.Esc(reqres) + "</resource></bind>"
	}
	addr := ""
	if reqTo != "" {
		addr += " to='" + nc.Esc(reqTo) + "'"
	}
	if reqFrom != "" {
		addr += " from='" + nc.Esc(reqFrom) + "'"
	}
	req := "<iq type='set' id='" + nc.Esc(reqid) + "'" + addr + ">" + inner + "</iq>"
	req = string(withDecoy([]byte(req), dec, xmlns))
	conn := nc.NewConn(nc.S(nc.Header(xmlns, "", rj.String(), domain.String())), nc.S(req))
	var s *xmpp.Session
	var serr error
	p := common.Recover(func() {
		s, serr = xmpp.NewSession(context.Background(), domain, rj, conn, st|xmpp.Received|xmpp.Secure|xmpp.Authn, negotiator(false, "", xmpp.BindCustom(server)))
		if serr != nil {
			_ = serr.Error()
		}
	})
	resField := "NONE"
	if reqres != "NONE" {
		resField = hx(reqres)
	}
	tf := func(raw string) string {
		if raw == "" {
			return "-"
		}
		return canonJ(raw)
	}
	line := fmt.Sprintf("binds %s %s %s %s %s %s %s %s %s", common.B(s2s), hx(remote), hx(reqid), resField, cb, hx(a), cbJid, tf(reqTo), tf(reqFrom))
	if dec != nil {
		line = fmt.Sprintf("bindsa %s %s %s %s %s %s %s %s %s %s:%s:%s:%v %s", common.B(s2s), hx(remote), hx(reqid), resField, cb, hx(a), cbJid, tf(reqTo), tf(reqFrom),
			dec.prefix, dec.local, hx(dec.value), dec.after, startAttrs([]byte(req), ""))
	}
	lines := []string{r.Prop + " " + line}
	if p != "" {
		r.Line(line, "PANIC")
		r.Case(line, true, class+":panic")
		r.Fail("bind-no-panic", "server:"+cb, lines, p)
		return
	}
	streams, perr := nc.ParseWritten(conn.Written())
	typ, id, jtxt, cond := "NOREPLY", "-", "-", "-"
	repTo, repFrom := "", ""
	rawJ := ""
	nsOK := true
	errInBind := false
	if len(streams) > 0 {
		for _, e := range streams[0].Elems {
			if e.Name.Local != "iq" {
				continue
			}
			nsOK = e.Name.Space == xmlns
			typ, _ = e.AttrVal("type")
			v, _ := e.AttrVal("id")
			id = hx(v)
			repTo, _ = e.AttrVal("to")
			repFrom, _ = e.AttrVal("from")
			if bd, ok := e.Child("bind"); ok {
				if je, ok := bd.Child("jid"); ok {
					rawJ = je.Text
					jtxt = hx(je.Text)
				}
				if ee, ok := bd.Child("error"); ok {
					errInBind = true
					if len(ee.Kids) > 0 {
						cond = ee.Kids[0].Name.Local
					}
				}
			}
			if ee, ok := e.Child("error"); ok && len(ee.Kids) > 0 {
				cond = ee.Kids[0].Name.Local
			}
		}
	}
	bare := rj.Bare().String()
	if cb == "nil" && strings.HasPrefix(rawJ, bare+"/") && regexp.MustCompile(`^[0-9a-f]{8,}$`).MatchString(rawJ[len(bare)+1:]) {
		jtxt = "RND"
	}
	ec := errClass(serr)
	if cbErr != nil && serr != nil && errors.Is(serr, cbErr) {
		ec = "cberr"
	}
	for _, raw := range []string{reqTo, reqFrom} {
		if raw == "" {
			continue
		}
		if _, perr := jid.Parse(raw); perr != nil && serr != nil && strings.Contains(serr.Error(), perr.Error()) {
			ec = "jiderr"
		}
	}
	ready := s != nil && s.State()&xmpp.Ready != 0
	obs := fmt.Sprintf("%s %s %s %s %s %s %s %s %s", typ, id, jtxt, cond, ec, common.B(ready), common.Join(cbArgs, ","), hx(repTo), hx(repFrom))
	r.Line(line, obs)
	r.Case(line, true, class+":"+ec)

	// ---- oracle ----
	if perr != nil {
		r.Fail("bind-reply", "malformed-output", lines, perr.Error())
	}
	if typ != "NOREPLY" {
		// the reply goes back where the request came from
		cto, e1 := jidOrZero(reqTo)
		cfrom, e2 := jidOrZero(reqFrom)
		if e1 == nil && e2 == nil && (repTo != cfrom.String() || repFrom != cto.String()) {
			r.Fail("bind-reply", "addresses-not-echoed", lines, fmt.Sprintf("request to=%q from=%q, reply to=%q from=%q", reqTo, reqFrom, repTo, repFrom))
		}
	}
	if reqTo != "" || reqFrom != "" {
		if _, e1 := jidOrZero(reqTo); e1 != nil && (typ != "NOREPLY" || ready) {
			r.Fail("bind-reply", "invalid-request-address-accepted", lines, "request with an invalid to attribute was answered")
		}
		if _, e2 := jidOrZero(reqFrom); e2 != nil && (typ != "NOREPLY" || ready) {
			r.Fail("bind-reply", "invalid-request-address-accepted", lines, "request with an invalid from attribute was answered")
		}
		if _, e1 := jidOrZero(reqTo); e1 != nil {
			return
		}
		if _, e2 := jidOrZero(reqFrom); e2 != nil {
			return
		}
	}
	wantRes := reqres
	if wantRes == "NONE" {
		wantRes = ""
	}
	if cb != "nil" && (len(cbArgs) != 1 || cbArgs[0] != hx(rj.String())+"/"+hx(wantRes)) {
		r.Fail("bind-reply", "callback-arguments", lines, fmt.Sprintf("callback saw %v, request had remote %q resource %q", cbArgs, rj.String(), wantRes))
	}
	switch cb {
	case "nil", "jid", "echo":
		var want string
		ok := true
		switch cb {
		case "jid":
			j, e := jid.Parse(a)
			want, ok = j.String(), e == nil
		case "echo":
			res := wantRes
			if res == "" {
				res = "fallback"
			}
			j, e := rj.WithResource(res)
			want, ok = j.String(), e == nil
		}
		if !ok {
			// the callback itself failed: no result may be sent
			if typ == "result" || ready {
				r.Fail("bind-reply", "result-after-callback-error", lines, "callback returned an error but a result was sent / session is ready")
			}
			return
		}
		if typ != "result" || id != hx(reqid) || !nsOK || !ready || serr != nil {
			r.Fail("bind-reply", "result-shape", lines, fmt.Sprintf("type=%s id=%s ns-ok=%v ready=%v err=%s", typ, id, nsOK, ready, ec))
		}
		if cb == "nil" {
			if jtxt != "RND" {
				r.Fail("bind-reply", "no-fresh-resource", lines, "assigned jid is not the bare remote address with a random resource: "+rawJ)
			}
		} else if rawJ != want {
			r.Fail("bind-reply", "callback-address-not-sent", lines, fmt.Sprintf("callback chose %q, reply carries %q", want, rawJ))
		}
	case "serr":
		if typ != "error" || errInBind || cond != a || id != hx(reqid) {
			r.Fail("bind-reply", "stanza-error-not-sent-as-such", lines, fmt.Sprintf("callback returned stanza error %s: reply type=%s cond=%s error-inside-bind=%v id=%s", a, typ, cond, errInBind, id))
		}
		if ready {
			r.Fail("bind-reply", "ready-after-refusal", lines, "the callback refused the binding but the session is Ready")
		}
	case "err":
		if typ == "result" || ready || serr == nil {
			r.Fail("bind-reply", "result-after-callback-error", lines, "callback returned an error but a result was sent / session is ready")
		}
	}
}

// ---- generators --------------------------------------------------------------------------

type hv struct {
	open               bool
	streamErr          string
	name               string // element to use when not open and not error
	version, xmlns, id string
	to, from           string
	junk               string
	noVersion, noXMLNS bool
	dq                 bool // double quotes
	// raw attribute text written before / after the regular attributes (namespace
	// declarations, prefixed attributes); lang: the value of a genuine xml:lang among them
	pre, post, lang string
	// ownPrefixed: `name` is this framing's own open element in a prefixed spelling
	ownPrefixed bool
}

func (h hv) render(ws bool) string {
	q := "'"
	if h.dq {
		q = "\""
	}
	attr := func(k, v string) string { return " " + k + "=" + q + nc.Esc(v) + q }
	var b strings.Builder
	b.WriteString(h.junk)
	switch {
	case h.streamErr != "":
		if ws {
			b.WriteString("<error xmlns='" + nsStream + "'><" + h.streamErr + " xmlns='urn:ietf:params:xml:ns:xmpp-streams'/></error>")
		} else {
			b.WriteString("<stream:error xmlns:stream='" + nsStream + "'><" + h.streamErr + " xmlns='urn:ietf:params:xml:ns:xmpp-streams'/></stream:error>")
		}
		return b.String()
	case h.open && ws:
		b.WriteString("<open xmlns='" + nsFraming + "'")
	case h.open:
		b.WriteString("<stream:stream xmlns:stream='" + nsStream + "'")
		if !h.noXMLNS {
			b.WriteString(attr("xmlns", h.xmlns))
		}
	default:
		b.WriteString(h.name)
	}
	b.WriteString(h.pre)
	if !h.noVersion {
		b.WriteString(attr("version", h.version))
	}
	if h.id != "" {
		b.WriteString(attr("id", h.id))
	}
	if h.to != "" {
		b.WriteString(attr("to", h.to))
	}
	if h.from != "" {
		b.WriteString(attr("from", h.from))
	}
	b.WriteString(h.post)
	if ws || !h.open {
		b.WriteString("/>")
	} else {
		b.WriteString(">")
	}
	return b.String()
}

func (h hv) facts(ws bool) hdrFacts {
	f := hdrFacts{open: (h.open || h.ownPrefixed) && h.streamErr == "", streamErr: h.streamErr, version: h.version, xmlns: h.xmlns, id: h.id, to: h.to, from: h.from, junk: h.junk, lang: h.lang}
	if h.noVersion {
		f.version = ""
	}
	if h.noXMLNS {
		f.xmlns = ""
	}
	if ws {
		f.xmlns = nsFraming
	}
	// harmless prefixes
	if h.junk == "<?xml version='1.0'?>" || h.junk == " \n" || h.junk == "<?xml version='1.0'?>\n" {
		f.junk = ""
	}
	return f
}

func mkHdr(ws bool, h hv) string {
	s := h.render(ws)
	genFacts[common.B(ws)+s] = h.facts(ws)
	return s
}

const (
	locA  = "example.net"
	origA = "user@example.net"
)

// headerVariants returns peer headers for a session whose peer is expected to say
// from=<from> to=<to>.
func headerVariants(ws bool, from, to string) []string {
	base := hv{open: true, version: "1.0", xmlns: "jabber:client", id: "s1", to: to, from: from}
	var out []string
	add := func(f func(*hv)) {
		h := base
		f(&h)
		out = append(out, mkHdr(ws, h))
	}
	add(func(h *hv) {})
	add(func(h *hv) { h.dq = true })
	add(func(h *hv) { h.junk = "<?xml version='1.0'?>" })
	add(func(h *hv) { h.junk = " \n" })
	add(func(h *hv) { h.junk = "<?xml version='1.0'?>\n" })
	add(func(h *hv) { h.junk = "<!-- hi -->" })
	add(func(h *hv) { h.junk = "text" })
	add(func(h *hv) { h.junk = "<?xml version='1.0'?><?pi x?>" })
	add(func(h *hv) { h.junk = "<!DOCTYPE x>" })
	for _, v := range []string{"0.9", "1.1", "2.0", "1", "1.0.0", "01.00", "256.0", "-1.0", "abc", "", "1.", ".0", "1.0 ", "+1.0", "1.-0"} {
		v := v
		add(func(h *hv) { h.version = v })
	}
	add(func(h *hv) { h.noVersion = true })
	for _, v := range []string{"jabber:server", "jabber:component:accept", "", "JABBER:CLIENT"} {
		v := v
		add(func(h *hv) { h.xmlns = v })
	}
	add(func(h *hv) { h.noXMLNS = true })
	add(func(h *hv) { h.id = "" })
	add(func(h *hv) { h.to = "" })
	add(func(h *hv) { h.from = "" })
	add(func(h *hv) { h.to, h.from = "", "" })
	// round F: PRESENT BUT EMPTY attributes (to='' is not the same document as no to at all, but it
	// carries the same information: nothing).  An empty to / from / xml:lang / id must be treated like
	// an absent one: it neither satisfies a demand (id) nor replaces or ERASES what is established.
	for _, pos := range []bool{false, true} {
		put := func(h *hv, t string) {
			if pos {
				h.post += t
			} else {
				h.pre += t
			}
		}
		add(func(h *hv) { h.to = ""; put(h, " to=''") })
		add(func(h *hv) { h.from = ""; put(h, " from=''") })
		add(func(h *hv) { h.to, h.from = "", ""; put(h, " to='' from=''") })
		add(func(h *hv) { h.id = ""; put(h, " id=''") })
		add(func(h *hv) { put(h, " xml:lang=''") })
		add(func(h *hv) { h.to = ""; put(h, ` to=""`); h.dq = true })
	}
	for _, v := range []string{"other.example", "user@example.net/r", "a@@b", "@example.net", "example.net/", "EXAMPLE.net"} {
		v := v
		add(func(h *hv) { h.to = v })
		add(func(h *hv) { h.from = v })
	}
	// attributes in other namespaces: only the unprefixed id / version / to / from / xmlns and
	// xml:lang belong to the header; x:id, stream:version, xml:to … do not
	decl := " xmlns:x='urn:example:x'"
	if ws {
		decl += " xmlns:stream='" + nsStream + "'"
	}
	good := map[string]string{"id": "s1", "version": "1.0", "to": to, "from": from, "xmlns": "jabber:client", "lang": "en"}
	evil := map[string]string{"id": "evil", "version": "0.9", "to": "other.example", "from": "other.example", "xmlns": "jabber:evil", "lang": "xx"}
	for _, pfx := range []string{"xml", "x", "stream"} {
		for _, l := range []string{"id", "version", "to", "from", "xmlns", "lang"} {
			pfx, l := pfx, l
			genuine := pfx == "xml" && l == "lang"
			// (1) only the prefixed attribute: the header lacks the plain one
			add(func(h *hv) {
				switch l {
				case "id":
					h.id = ""
				case "version":
					h.noVersion = true
				case "to":
					h.to = ""
				case "from":
					h.from = ""
				case "xmlns":
					h.noXMLNS = true
				}
				h.pre = decl
				h.post = " " + pfx + ":" + l + "='" + nc.Esc(good[l]) + "'"
				if genuine {
					h.lang = good[l]
				}
			})
			// (2) / (3) a conflicting prefixed attribute after / before the plain one
			for _, before := range []bool{false, true} {
				before := before
				add(func(h *hv) {
					a := " " + pfx + ":" + l + "='" + nc.Esc(evil[l]) + "'"
					h.pre = decl
					if before {
						h.pre += a
					} else {
						h.post = a
					}
					if genuine {
						h.lang = evil[l]
					}
				})
			}
		}
	}
	// a genuine xml:lang twice: the last one counts
	add(func(h *hv) { h.post = " xml:lang='en' xml:lang='de'"; h.lang = "de" })
	add(func(h *hv) { h.post = " xml:lang='en'"; h.lang = "en" })
	// the OTHER framing's open element, in every spelling, with everything else in order:
	// it is not the stream-open element of this framing
	for _, n := range []string{
		"<f:open xmlns:f='" + nsFraming + "' xmlns='jabber:client'",
		"<f:open xmlns:f='" + nsFraming + "'",
		"<open xmlns='" + nsFraming + "'",
		"<stream:stream xmlns:stream='" + nsStream + "' xmlns='jabber:client'",
		"<s:stream xmlns:s='" + nsStream + "' xmlns='jabber:client'",
		"<stream xmlns='" + nsStream + "'",
		"<stream:stream xmlns:stream='" + nsStream + "' xmlns='" + nsFraming + "'",
	} {
		n := n
		isWSOpen := strings.Contains(n, "open")
		if isWSOpen == ws {
			// this framing's own element: covered by the regular variants (the prefixed
			// spelling of the own element is a valid header)
			if !(ws && strings.HasPrefix(n, "<f:open")) {
				continue
			}
		}
		add(func(h *hv) { h.open = false; h.name = n; h.ownPrefixed = ws && isWSOpen })
	}
	for _, n := range []string{"<stream xmlns='jabber:client'", "<stream:features xmlns:stream='" + nsStream + "'", "<open xmlns='" + nsFraming + "'", "<stream:stream xmlns:stream='urn:wrong' xmlns='jabber:client'", "<close xmlns='" + nsFraming + "'", "<iq xmlns='jabber:client'"} {
		n := n
		add(func(h *hv) { h.open = false; h.name = n })
	}
	for _, e := range []string{"host-unknown", "not-authorized", "see-other-host"} {
		e := e
		add(func(h *hv) { h.streamErr = e })
	}
	return out
}

// the non-open variants above include the other framing's open element: fix the ground truth
func fixOpenFacts(ws bool) {
	for k, f := range genFacts {
		if k[:1] != common.B(ws) {
			continue
		}
		s := k[1:]
		if !f.open && f.streamErr == "" {
			if ws && strings.HasPrefix(strings.TrimLeft(s, " \n"), "<open xmlns='"+nsFraming+"'") {
				f.open = true
				f.xmlns = nsFraming
				genFacts[k] = f
			}
		}
	}
}

var specialJIDs = []string{
	"example.net", "user@example.net", "user@example.net/res", "example.net/res",
	"user@example.net/x'y", "user@example.net/x\"y", "user@example.net/a&b", "user@example.net/a<b>c",
	"user@example.net/&amp;", "user@example.net/tab\there", "user@example.net/ünï©ode", "user@example.net/ x ",
	"d'artagnan@example.net", "user@example.net/]]>", "user@example.net/&#39;",
}

var langs = []string{"", "en", "de-CH", "x'y", "a&b", "<", "\"", "en\">"}

// Run is the C12 runner.
func Run(r *common.Run) error {
	// common.NewRand(seed+1) is common.NewRand(seed) shifted by one draw, and r.Case
	// consumes draws: fork once so that different seeds give unrelated case streams
	rnd := r.Rnd.Fork()
	if r.Replay != "" {
		buildAllFacts()
		lines, err := common.ReplayLines(r.Replay)
		if err != nil {
			return err
		}
		for _, l := range lines {
			if err := replayLine(r, l); err != nil {
				return err
			}
		}
		return nil
	}
	for _, l := range corpus {
		if err := replayLine(r, "C12 "+l); err != nil {
			return err
		}
	}

	// ---- several sessions binding on one feature value ----
	genConcBind(r)
	for _, k := range []int{2, 3, 5} {
		for _, mode := range []string{"seq", "par"} {
			for _, remote := range []string{"user@example.net", "user@example.net/old"} {
				if r.Race() && mode == "seq" {
					continue
				}
				for rep := 0; rep < r.Pick(2, 10); rep++ {
					runBindFresh(r, mode, k, remote, "bind-fresh-"+mode)
				}
			}
		}
	}
	if r.Race() {
		return nil
	}

	// ---- hdr: every special address x role x framing, languages ----
	for _, ws := range []bool{false, true} {
		for _, recv := range []bool{false, true} {
			for _, s2s := range []bool{false, true} {
				for _, j := range specialJIDs {
					runHdr(r, hdrCase{recv: recv, ws: ws, s2s: s2s, loc: "example.net", orig: j}, "hdr-jid")
					runHdr(r, hdrCase{recv: recv, ws: ws, s2s: s2s, loc: j, orig: "example.org"}, "hdr-jid")
				}
				for _, l := range langs {
					runHdr(r, hdrCase{recv: recv, ws: ws, s2s: s2s, loc: "example.net", orig: "user@example.net", lang: l}, "hdr-lang")
				}
				runHdr(r, hdrCase{recv: recv, ws: ws, s2s: s2s, loc: "", orig: ""}, "hdr-noaddr")
				// ---- the same after each history (a failed / cancelled / successful other session) ----
				for _, pr := range append(append([]string{}, priors...), sharedPriors...) {
					for _, j := range []string{"user@example.net/res", "user@example.net/x'y", "user@example.net/a<b>c"} {
						runHdr(r, hdrCase{recv: recv, ws: ws, s2s: s2s, loc: "example.net", orig: j, lang: "en", prior: pr}, "hdr-after-"+pr)
					}
					runHdr(r, hdrCase{recv: recv, ws: ws, s2s: s2s, loc: "", orig: "", prior: pr}, "hdr-after-"+pr)
				}
			}
		}
	}
	r.Exhaustive = append(r.Exhaustive, "stream header after every history (another session whose 1st / 2nd write fails, whose connection takes 10 bytes, on the other framing and role, cancelled, successful) x role x framing x c2s/s2s")
	r.Exhaustive = append(r.Exhaustive, "stream header of a session whose Negotiator VALUE served other sessions before (other kind c2s<->s2s, other role, failed write, two sessions, same kind) x role x framing x c2s/s2s")
	// random resourceparts over a special-character alphabet
	alpha := []rune("ab'\"&<>;#x/@ =é\t")
	n := r.Pick(300, 5000)
	for i := 0; i < n; i++ {
		k := 1 + rnd.Intn(8)
		rs := make([]rune, k)
		for x := range rs {
			rs[x] = alpha[rnd.Intn(len(alpha))]
		}
		j, err := jid.New("user", "example.net", string(rs))
		if err != nil {
			continue
		}
		lang := ""
		if rnd.Chance(1, 3) {
			ls := make([]rune, 1+rnd.Intn(4))
			for x := range ls {
				ls[x] = alpha[rnd.Intn(len(alpha))]
			}
			lang = string(ls)
		}
		prior := ""
		if rnd.Chance(1, 4) {
			all := append(append([]string{}, priors...), sharedPriors...)
			prior = all[rnd.Intn(len(all))]
		}
		runHdr(r, hdrCase{recv: rnd.Bool(), ws: rnd.Bool(), s2s: rnd.Bool(), loc: "example.net", orig: j.String(), lang: lang, prior: prior}, "hdr-random")
	}

	// ---- tag: attribute values, line ends and references, exhaustive small scope ----
	pieces := []string{"a", "\r", "\n", "\t", " ", "&#xD;", "&#xA;", "&#13;", "&#9;", "&amp;", "&lt;", "&quot;", "é", "<", "&", "&bogus;", "&#x110000;", "&#0;"}
	maxLen := r.Pick(3, 4)
	for _, q := range []string{"'", "\""} {
		other := "\""
		if q == "\"" {
			other = "'"
		}
		ps := append(append([]string{}, pieces...), other)
		for n := 0; n <= maxLen; n++ {
			if n == 4 {
				ps = []string{"a", "\r", "\n", "\t", "&#xD;", "&#xA;", "&amp;", other}
			}
			enumerate(ps, n, func(v []string) {
				runTag(r, "<a x="+q+strings.Join(v, "")+q+" y='1'>", "tag")
			})
		}
	}
	r.Exhaustive = append(r.Exhaustive, fmt.Sprintf("attribute values: every sequence of <= %d pieces out of raw CR/LF/TAB/space, character references to them, entities, the other quote, non-ASCII, and malformed pieces, both quote styles: model reader vs encoding/xml", maxLen))

	// ---- neg: single headers, every variant x role x framing ----
	for _, ws := range []bool{false, true} {
		for _, recv := range []bool{false, true} {
			// initiating: the peer is the location and answers from=loc to=orig;
			// receiving: the peer is the origin and says from=orig to=loc
			from, to := locA, origA
			if recv {
				from, to = origA, locA
			}
			vs := headerVariants(ws, from, to)
			fixOpenFacts(ws)
			for _, s2s := range []bool{false, true} {
				for _, h := range vs {
					runNeg(r, negCase{recv: recv, ws: ws, s2s: s2s, loc: locA, orig: origA, hdrs: []string{h}}, "neg-single")
					if recv {
						// addresses not known yet
						runNeg(r, negCase{recv: recv, ws: ws, s2s: s2s, hdrs: []string{h}}, "neg-single-unknown")
					}
				}
			}
			// ---- sequences over restarts: a good first header, then every variant ----
			good := mkHdr(ws, hv{open: true, version: "1.0", xmlns: "jabber:client", id: "s1", to: to, from: from})
			for _, s2s := range []bool{false, true} {
				for _, h := range vs {
					runNeg(r, negCase{recv: recv, ws: ws, s2s: s2s, loc: locA, orig: origA, hdrs: []string{good, h}}, "neg-restart")
					if recv {
						runNeg(r, negCase{recv: recv, ws: ws, s2s: s2s, hdrs: []string{good, h}}, "neg-restart-learned")
					}
				}
			}
			// ---- round F: every variant FIRST, then a good header (what a header leaves behind shows in
			// the following step: the next header is judged against the addresses the first one left) ----
			for _, s2s := range []bool{false, true} {
				for _, h := range vs {
					runNeg(r, negCase{recv: recv, ws: ws, s2s: s2s, loc: locA, orig: origA, hdrs: []string{h, good, good}}, "neg-then-good")
				}
			}
			// three streams, addresses drifting
			pool := []string{"", from, to, "other.example", "user@example.net/r"}
			cnt := r.Pick(150, 2000)
			for i := 0; i < cnt; i++ {
				var hs []string
				for k := 0; k < 3; k++ {
					h := hv{open: true, version: "1.0", xmlns: "jabber:client", id: "s1", to: to, from: from}
					if rnd.Chance(1, 2) {
						h.to = pool[rnd.Intn(len(pool))]
					}
					if rnd.Chance(1, 2) {
						h.from = pool[rnd.Intn(len(pool))]
					}
					// absent or present but empty
					if h.to == "" && rnd.Chance(1, 2) {
						h.pre += " to=''"
					}
					if h.from == "" && rnd.Chance(1, 2) {
						h.post += " from=''"
					}
					hs = append(hs, mkHdr(ws, h))
				}
				known := rnd.Chance(1, 2)
				c := negCase{recv: recv, ws: ws, s2s: rnd.Bool(), hdrs: hs}
				if known || !recv {
					c.loc, c.orig = locA, origA
				}
				runNeg(r, c, "neg-drift")
			}
		}
	}

	// ---- near misses of the established addresses ----
	nearMissCases(r, r.Pick(6, 24))
	r.Exhaustive = append(r.Exhaustive, "headers with PRESENT BUT EMPTY to / from / id / xml:lang (before / after the other attributes, both quote styles) x role x framing x s2s, single, after a restart, addresses unknown, and FOLLOWED by two good headers; every header variant followed by good headers")
	r.Exhaustive = append(r.Exhaustive, "headers whose to / from is a near miss of the established address (the same octets cut differently into local / domain / resource, one octet less / more, bare vs full, domain only) x role x framing x s2s, single, after a restart, after the addresses were learned")

	// ---- header exchange in a hostile environment: tee, write failures, cancellation ----
	for _, ws := range []bool{false, true} {
		for _, recv := range []bool{false, true} {
			from, to := locA, origA
			if recv {
				from, to = origA, locA
			}
			good := mkHdr(ws, hv{open: true, version: "1.0", xmlns: "jabber:client", id: "s1", to: to, from: from})
			bad := mkHdr(ws, hv{open: true, version: "1.0", xmlns: "jabber:client", id: "s1", to: to, from: "other.example"})
			oldv := mkHdr(ws, hv{open: true, version: "0.9", xmlns: "jabber:client", id: "s1", to: "other.example", from: from})
			for _, hs := range [][]string{{good}, {good, good}, {good, good, good}, {good, bad}, {bad}, {good, oldv}, {oldv}} {
				for _, tee := range []bool{false, true} {
					for b := -1; b <= 5; b++ {
						for k := -1; k <= 2; k++ {
							if !tee && b < 0 && k < 0 {
								continue
							}
							runNeg(r, negCase{recv: recv, ws: ws, s2s: false, loc: locA, orig: origA, hdrs: hs, env: true, tee: tee, budget: b, cancel: k}, "neg-env")
						}
					}
				}
			}
		}
	}

	// ---- bind, initiating side ----
	locals := []string{"user@example.net/home", "user@example.net", "user@example.net/x'y&<z>", "user@example.net/ünï"}
	assigned := []string{"user@example.net/home", "user@example.net/srv-assigned", "other@example.org/x", "user@example.net", "", "a@@b", "user@example.net/q'\"&<"}
	for _, l := range locals {
		for _, a := range assigned {
			for _, rep := range []string{"res", "wrongid", "noid", "nsiq"} {
				runBindClient(r, l, rep, a, "", "bindc")
			}
			runBindClient(r, l, "type", "get", a, "bindc")
			runBindClient(r, l, "type", "set", a, "bindc")
			runBindClient(r, l, "type", "bogus", a, "bindc")
		}
		for _, rep := range []string{"resnojid", "resnobind", "errempty", "noniq", "space", "eof"} {
			runBindClient(r, l, rep, "", "", "bindc")
		}
		runBindClient(r, l, "trunc", "user@example.net/half", "", "bindc")
		for _, cond := range []string{"conflict", "bad-request", "not-allowed", "resource-constraint"} {
			runBindClient(r, l, "err", cond, "", "bindc")
		}
	}

	// ---- bind, receiving side ----
	for _, s2s := range []bool{false, true} {
		for _, remote := range []string{"user@example.net", "user@example.net/old"} {
			for _, id := range []string{"123", "a'b\"c&d<e", ""} {
				for _, res := range []string{"NONE", "", "home", "x'y&<z>", "ünï"} {
					runBindServer(r, s2s, remote, id, res, "nil", "", "binds")
					runBindServer(r, s2s, remote, id, res, "echo", "", "binds")
					runBindServer(r, s2s, remote, id, res, "err", "", "binds")
					for _, a := range []string{"user@example.net/chosen", "user@example.net/c'&<\"", "other@example.org/z", "a@@b"} {
						runBindServer(r, s2s, remote, id, res, "jid", a, "binds")
					}
					for _, cnd := range []string{"conflict", "not-allowed"} {
						runBindServer(r, s2s, remote, id, res, "serr", cnd, "binds")
					}
				}
			}
		}
	}
	for _, s2s := range []bool{false, true} {
		for _, to := range []string{"", "example.net", "EXAMPLE.net", "a@@b", "x'y@example.net/q<"} {
			for _, from := range []string{"", "user@example.net/old", "other@example.org", "a@@b"} {
				for _, cb := range []string{"nil", "echo", "serr", "err"} {
					a := ""
					if cb == "serr" {
						a = "conflict"
					}
					runBindServerTF(r, s2s, "user@example.net", "i1", "home", cb, a, to, from, "binds-tofrom")
				}
			}
		}
	}
	// ---- round E: attributes called id / type / to / from in a namespace, on both sides of bind ----
	for _, dec := range allDecoys() {
		for _, l := range []string{"user@example.net/home", "user@example.net"} {
			for _, rep := range []string{"res", "wrongid", "noid"} {
				runBindClientD(r, l, rep, "user@example.net/srv-assigned", "", dec, "bindc-decoy")
			}
			runBindClientD(r, l, "err", "conflict", "", dec, "bindc-decoy")
			runBindClientD(r, l, "errempty", "", "", dec, "bindc-decoy")
			runBindClientD(r, l, "type", "get", "user@example.net/srv-assigned", dec, "bindc-decoy")
		}
		for _, s2s := range []bool{false, true} {
			for _, id := range []string{"real", ""} {
				for _, cb := range []string{"nil", "echo", "serr"} {
					a := ""
					if cb == "serr" {
						a = "conflict"
					}
					runBindServerD(r, s2s, "user@example.net", id, "home", cb, a, "", "", dec, "binds-decoy")
					runBindServerD(r, s2s, "user@example.net", id, "home", cb, a, "example.net", "user@example.net/old", dec, "binds-decoy")
				}
			}
		}
	}
	r.Exhaustive = append(r.Exhaustive, "bind request and bind reply with an attribute named id / type / to / from in a namespace (foreign prefix, xml:, a prefix bound to the stanza's own namespace; valid and invalid address values) before / after the plain attributes x reply class / callback kind x c2s/s2s")
	r.Exhaustive = append(r.Exhaustive, "every header variant (versions, namespaces, ids, addresses, element names, stream errors, junk prefixes) x role x framing x s2s, single and after a restart; every bind reply class x local address x assigned address; every bind request x callback kind")
	return nil
}

var corpus = []string{}

func parseDecoy(x string) *decoy {
	p := strings.Split(x, ":")
	if len(p) != 4 {
		return nil
	}
	v, err := unhx(p[2])
	if err != nil {
		return nil
	}
	return &decoy{p[0], p[1], v, p[3] == "true"}
}

func replayLine(r *common.Run, l string) error {
	f := strings.Fields(l)
	if len(f) > 0 && f[0] == r.Prop {
		f = f[1:]
	}
	if len(f) == 0 || strings.HasPrefix(l, "#") {
		return nil
	}
	un := func(s string) string { v, _ := unhx(s); return v }
	switch {
	case (f[0] == "hdr" && len(f) == 8) || (f[0] == "hdrp" && len(f) == 9):
		// the arguments identify role only implicitly: replay both roles
		prior := ""
		if f[0] == "hdrp" {
			prior = f[1]
			f = append([]string{"hdr"}, f[2:]...)
		}
		ws := f[1] == "1"
		s2s := un(f[2]) == "jabber:server"
		to, from, id, lang := un(f[3]), un(f[4]), un(f[5]), un(f[6])
		if id == "" {
			runHdr(r, hdrCase{recv: false, ws: ws, s2s: s2s, loc: to, orig: from, lang: lang, prior: prior}, "replay")
		} else {
			runHdr(r, hdrCase{recv: true, ws: ws, s2s: s2s, loc: from, orig: to, lang: lang, prior: prior}, "replay")
		}
		return nil
	case f[0] == "bindr" && len(f) == 4:
		k := 0
		fmt.Sscanf(f[2], "%d", &k)
		runBindFresh(r, f[1], k, un(f[3]), "replay")
		return nil
	case f[0] == "concb" && len(f) >= 3:
		return replayConcBind(r, f)
	case f[0] == "tag" && len(f) == 2:
		runTag(r, un(f[1]), "replay")
		return nil
	case f[0] == "bindc" && len(f) == 7:
		runBindClient(r, un(f[1]), f[2], un(f[3]), un(f[4]), "replay")
		return nil
	case f[0] == "bindca" && len(f) == 9:
		if d := parseDecoy(f[7]); d != nil {
			runBindClientD(r, un(f[1]), f[2], un(f[3]), un(f[4]), d, "replay")
		}
		return nil
	case f[0] == "bindsa" && len(f) == 12:
		res := "NONE"
		if f[4] != "NONE" {
			res = un(f[4])
		}
		tf := func(x string) string {
			if x == "-" {
				return ""
			}
			if x == "!" {
				return "a@@b"
			}
			return un(x)
		}
		if d := parseDecoy(f[10]); d != nil {
			runBindServerD(r, f[1] == "1", un(f[2]), un(f[3]), res, f[5], un(f[6]), tf(f[8]), tf(f[9]), d, "replay")
		}
		return nil
	case f[0] == "binds" && len(f) == 10:
		res := "NONE"
		if f[4] != "NONE" {
			res = un(f[4])
		}
		// the raw to/from of the request are not in the line (only their canonical forms):
		// replay the canonical forms
		tf := func(x string) string {
			if x == "-" {
				return ""
			}
			if x == "!" {
				return "a@@b"
			}
			return un(x)
		}
		runBindServerTF(r, f[1] == "1", un(f[2]), un(f[3]), res, f[5], un(f[6]), tf(f[8]), tf(f[9]), "replay")
		return nil
	case f[0] == "nege" && len(f) >= 11:
		var hs []string
		for _, t := range f[10:] {
			i := strings.Index(t, "|")
			if i < 0 {
				return fmt.Errorf("bad header field %q", t)
			}
			hs = append(hs, un(t[:i]))
		}
		c := negCase{recv: f[1] == "r", ws: f[2] == "1", s2s: f[3] == "1", loc: un(f[4]), orig: un(f[5]), hdrs: hs, env: true, tee: f[7] == "1", budget: -1, cancel: -1}
		if f[8] != "-" {
			fmt.Sscanf(f[8], "%d", &c.budget)
		}
		if f[9] != "-" {
			fmt.Sscanf(f[9], "%d", &c.cancel)
		}
		runNeg(r, c, "replay")
		return nil
	case f[0] == "neg" && len(f) >= 8:
		var hs []string
		for _, t := range f[7:] {
			i := strings.Index(t, "|")
			if i < 0 {
				return fmt.Errorf("bad header field %q", t)
			}
			hs = append(hs, un(t[:i]))
		}
		runNeg(r, negCase{recv: f[1] == "r", ws: f[2] == "1", s2s: f[3] == "1", loc: un(f[4]), orig: un(f[5]), hdrs: hs}, "replay")
		return nil
	}
	return fmt.Errorf("cannot replay line %q", l)
}
