package c12

import (
	"context"
	"fmt"
	"strings"
	"sync"

	"mellium.im/xmpp"
	"mellium.im/xmpp/jid"

	"verifharness/common"
	nc "verifharness/negcommon"
)

// Several receiving sessions bind on ONE xmpp.BindCustom value, in every interleaving of the
// callback's yield points (P: entered, Q: about to return).
//
//	concb <sched> <remotehex>/<reshex>/<jidhex>…  -> per session "<type> <id> <jid> <err> <ready> <cbargs>", joined by " ; "
//
// jid is the address the callback answers for that session (remote with the requested
// resource).
func runConcBind(r *common.Run, sched []int, items [][2]string, class string) {
	n := len(items)
	free := r.Race()
	var S *nc.Sched
	if !free {
		S = nc.NewSched(n)
	}
	var mu sync.Mutex
	cbArgs := make([][]string, n)
	cb := func(j jid.JID, res string) (jid.JID, error) {
		i := -1
		if S != nil {
			i = S.Cur
			S.Park(i, "P")
		}
		out, err := j.WithResource(res)
		if S != nil {
			S.Park(i, "Q")
			mu.Lock()
			cbArgs[i] = append(cbArgs[i], hx(j.String())+"/"+hx(res))
			mu.Unlock()
		}
		return out, err
	}
	feat := xmpp.BindCustom(cb) // ONE feature value for all sessions
	conns := make([]*nc.Conn, n)
	sess := make([]*xmpp.Session, n)
	errs := make([]error, n)
	panics := make([]string, n)
	want := make([]string, n)
	run := func(i int) func() {
		rj := jid.MustParse(items[i][0])
		w, _ := rj.WithResource(items[i][1])
		want[i] = w.String()
		req := fmt.Sprintf("<iq type='set' id='id%d' from='%s'><bind xmlns='%s'><resource>%s</resource></bind></iq>", i, nc.Esc(rj.String()), nsBind, nc.Esc(items[i][1]))
		conns[i] = nc.NewConn(nc.S(nc.Header("jabber:client", "", rj.String(), rj.Domain().String())), nc.S(req))
		return func() {
			panics[i] = common.Recover(func() {
				sess[i], errs[i] = xmpp.NewSession(context.Background(), rj.Domain(), rj, conns[i], xmpp.Received|xmpp.Secure|xmpp.Authn, negotiator(false, "", feat))
			})
		}
	}
	if free {
		var wg sync.WaitGroup
		start := make(chan struct{})
		for i := 0; i < n; i++ {
			f := run(i)
			wg.Add(1)
			go func() { defer wg.Done(); <-start; f() }()
		}
		close(start)
		wg.Wait()
	} else {
		for i := 0; i < n; i++ {
			S.Start(i, run(i))
		}
		for _, i := range sched {
			S.Step(i)
		}
		S.Finish()
	}
	var fl []string
	for i, it := range items {
		fl = append(fl, hx(it[0])+"/"+hx(it[1])+"/"+hx(want[i]))
	}
	var sl []string
	for _, i := range sched {
		sl = append(sl, fmt.Sprint(i))
	}
	line := fmt.Sprintf("concb %s %s", common.Join(sl, ","), strings.Join(fl, " "))
	lines := []string{r.Prop + " " + line}
	var obs []string
	for i := 0; i < n; i++ {
		if panics[i] != "" {
			obs = append(obs, "PANIC")
			r.Fail("bind-no-panic", "concurrent", lines, panics[i])
			continue
		}
		typ, id, j, to := "NOREPLY", "-", "-", ""
		streams, _ := nc.ParseWritten(conns[i].Written())
		if len(streams) > 0 {
			for _, e := range streams[0].Elems {
				if e.Name.Local != "iq" {
					continue
				}
				typ, _ = e.AttrVal("type")
				v, _ := e.AttrVal("id")
				id = hx(v)
				to, _ = e.AttrVal("to")
				if bd, ok := e.Child("bind"); ok {
					if je, ok := bd.Child("jid"); ok {
						j = hx(je.Text)
					}
				}
			}
		}
		ready := sess[i] != nil && sess[i].State()&xmpp.Ready != 0
		obs = append(obs, fmt.Sprintf("%s %s %s %s %s %s %s", typ, id, j, errClass(errs[i]), common.B(ready), common.Join(cbArgs[i], ","), hx(to)))
		if typ != "result" || id != hx(fmt.Sprintf("id%d", i)) || j != hx(want[i]) || !ready || to != items[i][0] {
			r.Fail("bind-sessions-independent", "reply", lines, fmt.Sprintf("session %d (%s asks for %q): reply type=%s id=%s jid=%s to=%q ready=%v", i, items[i][0], items[i][1], typ, id, j, to, ready))
		}
		if !free && (len(cbArgs[i]) != 1 || cbArgs[i][0] != hx(items[i][0])+"/"+hx(items[i][1])) {
			r.Fail("bind-sessions-independent", "callback-arguments", lines, fmt.Sprintf("session %d: callback saw %v", i, cbArgs[i]))
		}
	}
	if S != nil && S.Stalled {
		r.Fail("bind-sessions-independent", "stall", lines, strings.Join(S.Trace, " "))
	}
	if free {
		r.Mark("case %s", line)
		r.Case(line, true, class)
		return
	}
	r.Line(line, strings.Join(obs, " ; "))
	r.Case(line, true, class)
}

func genConcBind(r *common.Run) {
	pool := [][2]string{{"user@example.net", "home"}, {"user@example.net", "work"}, {"other@example.net", "home"}, {"a@example.net", "a-much-longer-resource"}}
	if r.Race() {
		for rep := 0; rep < 100; rep++ {
			runConcBind(r, nil, [][2]string{pool[rep%4], pool[(rep/4)%4], pool[(rep/16)%4]}[:2+rep%2], "race-bind")
		}
		return
	}
	for _, a := range pool {
		for _, b := range pool {
			nc.Interleavings(2, 2, func(s []int) { runConcBind(r, s, [][2]string{a, b}, "conc-bind2") })
		}
	}
	nc.Interleavings(3, 2, func(s []int) { runConcBind(r, s, [][2]string{pool[0], pool[3], pool[2]}, "conc-bind3") })
}

func replayConcBind(r *common.Run, f []string) error {
	var sched []int
	if f[1] != "-" {
		for _, x := range strings.Split(f[1], ",") {
			var i int
			if _, err := fmt.Sscanf(x, "%d", &i); err != nil {
				return err
			}
			sched = append(sched, i)
		}
	}
	var items [][2]string
	for _, x := range f[2:] {
		p := strings.Split(x, "/")
		if len(p) != 3 {
			return fmt.Errorf("bad concb item %q", x)
		}
		a, _ := unhx(p[0])
		b, _ := unhx(p[1])
		items = append(items, [2]string{a, b})
	}
	runConcBind(r, sched, items, "replay")
	return nil
}

// runBindFresh: k receiving sessions, one after the other ("seq") or free-running in
// parallel ("par"), on ONE xmpp.BindResource() value (no callback: the feature assigns a
// random resource on the bare remote address).
//
//	bindr <mode> <k> <remotehex>  -> the assigned resources, named R<n> in order of first appearance
func runBindFresh(r *common.Run, mode string, k int, remote string, class string) {
	rj := jid.MustParse(remote)
	feat := xmpp.BindResource() // ONE feature value for all sessions
	conns := make([]*nc.Conn, k)
	sess := make([]*xmpp.Session, k)
	errs := make([]error, k)
	panics := make([]string, k)
	run := func(i int) {
		req := fmt.Sprintf("<iq type='set' id='id%d'><bind xmlns='%s'/></iq>", i, nsBind)
		conns[i] = nc.NewConn(nc.S(nc.Header("jabber:client", "", rj.String(), rj.Domain().String())), nc.S(req))
		panics[i] = common.Recover(func() {
			sess[i], errs[i] = xmpp.NewSession(context.Background(), rj.Domain(), rj, conns[i], xmpp.Received|xmpp.Secure|xmpp.Authn, negotiator(false, "", feat))
		})
	}
	if mode == "par" {
		var wg sync.WaitGroup
		start := make(chan struct{})
		for i := 0; i < k; i++ {
			i := i
			wg.Add(1)
			go func() { defer wg.Done(); <-start; run(i) }()
		}
		close(start)
		wg.Wait()
	} else {
		for i := 0; i < k; i++ {
			run(i)
		}
	}
	line := fmt.Sprintf("bindr %s %d %s", mode, k, hx(remote))
	lines := []string{r.Prop + " " + line}
	bare := rj.Bare().String()
	names := map[string]string{}
	var obs, resources []string
	for i := 0; i < k; i++ {
		if panics[i] != "" {
			obs = append(obs, "PANIC")
			r.Fail("bind-no-panic", "fresh", lines, panics[i])
			continue
		}
		raw := ""
		streams, _ := nc.ParseWritten(conns[i].Written())
		if len(streams) > 0 {
			for _, e := range streams[0].Elems {
				if bd, ok := e.Child("bind"); ok && e.Name.Local == "iq" {
					if je, ok := bd.Child("jid"); ok {
						raw = je.Text
					}
				}
			}
		}
		res := ""
		if strings.HasPrefix(raw, bare+"/") {
			res = raw[len(bare)+1:]
		}
		resources = append(resources, res)
		switch {
		case res == "":
			obs = append(obs, "EMPTY")
		default:
			if _, ok := names[res]; !ok {
				names[res] = fmt.Sprintf("R%d", len(names))
			}
			obs = append(obs, names[res])
		}
	}
	// ---- oracle: fresh per session ----
	for i := 0; i < k; i++ {
		if i >= len(resources) {
			break
		}
		if resources[i] == "" {
			r.Fail("bind-fresh-resource", "empty", lines, fmt.Sprintf("session %d was not assigned a resource on %s", i, bare))
		}
		for j := 0; j < i; j++ {
			if resources[i] != "" && resources[i] == resources[j] {
				r.Fail("bind-fresh-resource", "same-resource-twice", lines, fmt.Sprintf("sessions %d and %d on one BindResource() value were both assigned %s/%s", j, i, bare, resources[i]))
			}
		}
	}
	if r.Race() {
		r.Mark("case %s", line)
		r.Case(line, true, class)
		return
	}
	r.Line(line, strings.Join(obs, " "))
	r.Case(line, true, class)
}
