package c12

import (
	"bytes"
	"encoding/xml"
	"fmt"
	"path/filepath"
	"regexp"
	"strconv"
	"strings"

	"context"

	"mellium.im/xmpp"
	"mellium.im/xmpp/jid"
	"mellium.im/xmpp/stream"

	"verifharness/common"
	nc "verifharness/negcommon"

	"verifharness/astfacts"
)

var rawAttrRe = regexp.MustCompile(`([A-Za-z][A-Za-z:]*)=(?:'%[sv]'|"%[sv]")`)

func leanStr(s string) string {
	var b strings.Builder
	b.WriteByte('"')
	for _, r := range s {
		switch {
		case r == '"':
			b.WriteString(`\"`)
		case r == '\\':
			b.WriteString(`\\`)
		case r < 0x20 || r == 0x7f:
			fmt.Fprintf(&b, `\x%02x`, r)
		default:
			b.WriteRune(r)
		}
	}
	b.WriteByte('"')
	return b.String()
}

// probeChars: the characters that need escaping inside an attribute value or that a careless
// "fast path" might overlook, plus plain ones as controls.
var probeChars = []rune{'\'', '"', '&', '<', '>', ';', '\t', '\n', '\r', ' ', 'a', 0xe9, 0x2603}

// sendProbe runs a REAL session far enough to print its stream header (internal/stream.Send is
// reached through xmpp.NewSession) for both framings and both roles with each probe character
// inside each value the caller controls (to, from: in the resourcepart, where PRECIS allows the
// character; xml:lang: anywhere), reads the emitted header with encoding/xml and records whether
// the attribute comes back with the very value: "ok", "differs", "missing", "malformed",
// "panic"; characters an address cannot contain are recorded as "n/a".  (The stream id is drawn
// by the library, not controllable here; the hdr lines of every run cover it.)
func sendProbe() string {
	var rows []string
	for _, ws := range []bool{false, true} {
		for _, recv := range []bool{false, true} {
			for _, field := range []string{"to", "from", "lang"} {
				for _, ch := range probeChars {
					rows = append(rows, fmt.Sprintf("(%v, %v, %q, %d, %q)", ws, recv, field, ch, probeSend(ws, recv, field, ch)))
				}
			}
		}
	}
	return fmt.Sprintf("/-- (websocket, receiving, field, code point) ↦ does the header printed by a real session give the value back -/\ndef sendProbe : Option (List (Bool × Bool × String × Nat × String)) := some [\n  %s]\n\n", strings.Join(rows, ",\n  "))
}

func probeSend(ws, recv bool, field string, ch rune) (res string) {
	val := "x" + string(ch) + "y" + string(ch)
	c := hdrCase{recv: recv, ws: ws, loc: "user@example.net/home", orig: "example.net", lang: "en"}
	if recv {
		c.orig = "peer@example.org/there"
	}
	// which argument ends up in which attribute: see runHdr
	var wantSpace, wantLocal, want string
	switch field {
	case "lang":
		c.lang = val
		wantSpace, wantLocal, want = "http://www.w3.org/XML/1998/namespace", "lang", val
	default:
		addr := "user@example.net/" + val
		j, err := jid.Parse(addr)
		if err != nil {
			return "n/a"
		}
		// initiating: to = loc, from = orig; receiving: to = orig, from = loc
		if (field == "to") != recv {
			c.loc = addr
		} else {
			c.orig = addr
		}
		wantLocal, want = field, j.String()
	}
	loc, e1 := jidOrZero(c.loc)
	orig, e2 := jidOrZero(c.orig)
	if e1 != nil || e2 != nil {
		return "n/a"
	}
	var conn *nc.Conn
	if p := common.Recover(func() {
		if recv {
			conn = nc.NewConn(nc.S(peerHeader(ws, "jabber:client", "", orig.String(), loc.String())))
			_, _ = xmpp.NewSession(context.Background(), loc, orig, conn, xmpp.Received, negotiator(ws, c.lang))
		} else {
			conn = nc.NewConn()
			_, _ = xmpp.NewSession(context.Background(), loc, orig, conn, 0, negotiator(ws, c.lang))
		}
	}); p != "" {
		return "panic"
	}
	hdr := conn.Written()
	if i := bytes.Index(hdr, []byte("<stream:features")); i > 0 {
		hdr = hdr[:i]
	} else if i := bytes.Index(hdr, []byte("<features")); i > 0 {
		hdr = hdr[:i]
	}
	got, err := firstStart(hdr)
	if err != nil {
		return "malformed"
	}
	for _, a := range got.Attr {
		if a.Name.Space == wantSpace && a.Name.Local == wantLocal {
			if a.Value == want {
				return "ok"
			}
			return "differs"
		}
	}
	return "missing"
}

// ---- round D facts ----------------------------------------------------------------------------

func leanBytes(s string) string {
	var l []string
	for i := 0; i < len(s); i++ {
		l = append(l, fmt.Sprintf("0x%02x", s[i]))
	}
	return "[" + strings.Join(l, ", ") + "]"
}

// jidEqualUniverse: the established addresses of the near-miss cases, a spread of their near
// misses (the same octets cut differently, one octet less / more, bare / full), and plain ones.
func jidEqualUniverse() []jid.JID {
	var raws []string
	for _, p := range nearPairs {
		for _, a := range p {
			raws = append(raws, a)
			raws = append(raws, nearMisses(a, 4)...)
		}
	}
	raws = append(raws, "example.net", "user@example.net", "user@example.net/r", "a@b/c", "ab@c", "a@bc", "a/bc", "abc")
	seen := map[string]bool{}
	var out []jid.JID
	for _, raw := range raws {
		j, err := jid.Parse(raw)
		if err != nil || seen[j.String()] {
			continue
		}
		seen[j.String()] = true
		out = append(out, j)
	}
	return out
}

// jidEqualProbe: the REAL jid.JID.Equal (the comparison negotiator.go uses for every address check
// of a stream header) on ALL pairs of the universe; the universe is emitted as (localpart,
// domainpart, resourcepart) octets, the results as a matrix in universe order.
func jidEqualProbe() string {
	u := jidEqualUniverse()
	var us, rows []string
	for _, a := range u {
		us = append(us, fmt.Sprintf("(%s, %s, %s)", leanBytes(a.Localpart()), leanBytes(a.Domainpart()), leanBytes(a.Resourcepart())))
		var row []string
		for _, b := range u {
			row = append(row, fmt.Sprint(a.Equal(b)))
		}
		rows = append(rows, "["+strings.Join(row, ", ")+"]")
	}
	return fmt.Sprintf("/-- the addresses `JID.Equal` was probed on: (localpart, domainpart, resourcepart) octets -/\ndef jidEqualUniverse : Option (List (List UInt8 × List UInt8 × List UInt8)) := some [\n  %s]\n\n/-- row i, column j: the real `universe[i].Equal(universe[j])` -/\ndef jidEqualTable : Option (List (List Bool)) := some [\n  %s]\n\n",
		strings.Join(us, ",\n  "), strings.Join(rows, ",\n  "))
}

var idAttrRe = regexp.MustCompile(` id='[0-9a-f]+'`)

// emittedFor runs the session of hdrCase c (after the history c.prior) and returns everything it
// wrote, with the random stream id blanked.
func emittedFor(c hdrCase) string {
	loc, _ := jidOrZero(c.loc)
	orig, _ := jidOrZero(c.orig)
	var conn *nc.Conn
	runPrior(c.prior, c)
	if p := common.Recover(func() {
		if c.recv {
			conn = nc.NewConn(nc.S(peerHeader(c.ws, "jabber:client", "", orig.String(), loc.String())))
			_, _ = xmpp.NewSession(context.Background(), loc, orig, conn, xmpp.Received, negotiator(c.ws, c.lang))
		} else {
			conn = nc.NewConn()
			_, _ = xmpp.NewSession(context.Background(), loc, orig, conn, 0, negotiator(c.ws, c.lang))
		}
	}); p != "" {
		return "panic"
	}
	return string(idAttrRe.ReplaceAll(conn.Written(), []byte(" id='ID'")))
}

// sendHistoryProbe: for every history of `priors` x framing x role: does a REAL session write the
// very bytes it writes without any history ("same"), or not ("differs")?
func sendHistoryProbe() string {
	var rows []string
	for _, pr := range priors {
		for _, ws := range []bool{false, true} {
			for _, recv := range []bool{false, true} {
				c := hdrCase{recv: recv, ws: ws, loc: "example.net", orig: "user@example.net/x'y", lang: "en"}
				alone := emittedFor(c)
				c.prior = pr
				res := "differs"
				if after := emittedFor(c); after == alone && alone != "panic" && alone != "" {
					res = "same"
				}
				rows = append(rows, fmt.Sprintf("(%q, %v, %v, %q)", pr, ws, recv, res))
			}
		}
	}
	return fmt.Sprintf("/-- (history, websocket, receiving) ↦ does a real session write the same bytes as without the history -/\ndef sendHistoryProbe : Option (List (String × Bool × Bool × String)) := some [\n  %s]\n\n", strings.Join(rows, ",\n  "))
}

// sessionOn runs one session of kind k (bit 0: receiving, bit 1: s2s) on the negotiator value neg
// and returns what it wrote (stream id blanked) followed by the content namespace Session.Out()
// reports.
func sessionOn(neg xmpp.Negotiator, ws bool, k int, n int) string {
	recv, s2s := k&1 != 0, k&2 != 0
	loc := jid.MustParse(fmt.Sprintf("h%d.example", n))
	orig := jid.MustParse(fmt.Sprintf("u%d@h%d.example/r'%d", n, n, n))
	var st xmpp.SessionState
	xmlns := "jabber:client"
	if s2s {
		st |= xmpp.S2S
		xmlns = "jabber:server"
	}
	var conn *nc.Conn
	var sess *xmpp.Session
	if p := common.Recover(func() {
		if recv {
			conn = nc.NewConn(nc.S(peerHeader(ws, xmlns, "", orig.String(), loc.String())))
			sess, _ = xmpp.NewSession(context.Background(), loc, orig, conn, st|xmpp.Received, neg)
		} else {
			conn = nc.NewConn()
			sess, _ = xmpp.NewSession(context.Background(), loc, orig, conn, st, neg)
		}
	}); p != "" || sess == nil {
		return "panic"
	}
	return string(idAttrRe.ReplaceAll(conn.Written(), []byte(" id='ID'"))) + "|" + sess.Out().XMLNS
}

// negSharedProbe (round E): ONE Negotiator value serves every sequence of 2 and 3 sessions over the
// four kinds (role x c2s/s2s), per framing; the LAST session of the sequence is compared with the
// same session (same addresses) on a negotiator value of its own.  Row: (websocket, kinds of the
// sequence, "same" | "differs", content namespace the last header declares on TCP / Out() on ws).
func negSharedProbe() string {
	var rows []string
	for _, ws := range []bool{false, true} {
		var seqs [][]int
		for a := 0; a < 4; a++ {
			for b := 0; b < 4; b++ {
				seqs = append(seqs, []int{a, b})
				for c := 0; c < 4; c++ {
					seqs = append(seqs, []int{a, b, c})
				}
			}
		}
		for _, sq := range seqs {
			shared := negotiator(ws, "en")
			last := ""
			for i, k := range sq {
				last = sessionOn(shared, ws, k, i)
			}
			alone := sessionOn(negotiator(ws, "en"), ws, sq[len(sq)-1], len(sq)-1)
			res := "differs"
			if last == alone && alone != "panic" && !strings.HasPrefix(alone, "|") {
				res = "same"
			}
			ns := last[strings.LastIndex(last, "|")+1:]
			var ks []string
			for _, k := range sq {
				ks = append(ks, strconv.Itoa(k))
			}
			rows = append(rows, fmt.Sprintf("(%v, [%s], %q, %q)", ws, strings.Join(ks, ", "), res, ns))
		}
	}
	return fmt.Sprintf("/-- (websocket, kinds of the sessions ONE negotiator value served in this order; kind = receiving + 2*s2s) ↦\n(does the last session write what it writes on a negotiator value of its own, content namespace its Out() reports) -/\ndef negSharedProbe : Option (List (Bool × List Nat × String × String)) := some [\n  %s]\n\n", strings.Join(rows, ",\n  "))
}

// bindOn runs one receiving session that binds on the feature value feat and returns the id and
// the <jid/> of the reply it wrote.
func bindOn(feat xmpp.StreamFeature, remote jid.JID, id, res string) (rid, rjid string) {
	req := fmt.Sprintf("<iq type='set' id='%s'><bind xmlns='%s'><resource>%s</resource></bind></iq>", id, nsBind, res)
	conn := nc.NewConn(nc.S(nc.Header("jabber:client", "", remote.String(), remote.Domain().String())), nc.S(req))
	if p := common.Recover(func() {
		_, _ = xmpp.NewSession(context.Background(), remote.Domain(), remote, conn, xmpp.Received|xmpp.Secure|xmpp.Authn, negotiator(false, "", feat))
	}); p != "" {
		return "panic", ""
	}
	streams, _ := nc.ParseWritten(conn.Written())
	if len(streams) > 0 {
		for _, e := range streams[0].Elems {
			if e.Name.Local != "iq" {
				continue
			}
			rid, _ = e.AttrVal("id")
			if bd, ok := e.Child("bind"); ok {
				if je, ok := bd.Child("jid"); ok {
					rjid = je.Text
				}
			}
		}
	}
	return rid, rjid
}

// bindSharedProbe (round E, review B C12-3: behaviour instead of closure syntax): k = 2..4 receiving
// sessions with their own remote address, request id and requested resource bind one after the
// other on ONE feature value — BindResource() ("default") and BindCustom(echo) ("custom").  Row:
// (kind, k, every reply carries its own request id, every assigned address is the session's own bare
// address (custom: with the resource IT asked for), the assigned resources are non-empty and
// pairwise distinct ("default") / exactly the requested ones ("custom")).
func bindSharedProbe() string {
	var rows []string
	for _, kind := range []string{"default", "custom"} {
		for k := 2; k <= 4; k++ {
			feat := xmpp.BindResource()
			if kind == "custom" {
				feat = xmpp.BindCustom(func(j jid.JID, res string) (jid.JID, error) { return j.WithResource(res) })
			}
			idsOwn, addrOwn, resOK := true, true, true
			seen := map[string]bool{}
			for i := 0; i < k; i++ {
				remote := jid.MustParse(fmt.Sprintf("u%d@h%d.example", i, i))
				id, want := fmt.Sprintf("req%d", i), fmt.Sprintf("res%d", i)
				rid, rj := bindOn(feat, remote, id, want)
				if rid != id {
					idsOwn = false
				}
				pre := remote.String() + "/"
				if !strings.HasPrefix(rj, pre) {
					addrOwn = false
					continue
				}
				got := rj[len(pre):]
				if kind == "custom" {
					resOK = resOK && got == want
				} else {
					resOK = resOK && got != "" && !seen[got]
				}
				seen[got] = true
			}
			rows = append(rows, fmt.Sprintf("(%q, %d, %v, %v, %v)", kind, k, idsOwn, addrOwn, resOK))
		}
	}
	return fmt.Sprintf("/-- (feature kind, sessions on ONE feature value) ↦ (replies carry their own id, their own address, fresh / requested resources) -/\ndef bindSharedProbe : Option (List (String × Nat × Bool × Bool × Bool)) := some [\n  %s]\n\n", strings.Join(rows, ",\n  "))
}

// Facts regenerates lean/XmppModel/Generated/C12.lean:
//
//   - sendRawAttrs: the attributes internal/stream.Send prints with a bare %s inside quotes
//     (read from the string literals of the function with go/ast);
//   - escapeTable: what the real xml.EscapeText writes for every code point below 0x300
//     and the boundary code points of the XML character ranges (finite-domain extraction);
//   - versionTable: what the real stream.ParseVersion returns for every string of length
//     <= 3 over a 9-letter alphabet plus a list of longer ones.
func Facts(repo string) (string, error) {
	var sb strings.Builder
	sb.WriteString("-- GENERATED by `harness facts C12`; do not edit.\n")
	sb.WriteString("namespace XmppModel.Generated.C12\n\n")

	// ---- 1. the header printer probed on every special character in every caller-controlled field ----
	sb.WriteString(sendProbe())

	// ---- 2. xml.EscapeText on a finite domain ----
	var cps []rune
	for r := rune(0); r < 0x300; r++ {
		cps = append(cps, r)
	}
	cps = append(cps, 0xD7FF, 0xE000, 0xFFFD, 0xFFFE, 0xFFFF, 0x10000, 0x10FFFF)
	var rows []string
	for _, r := range cps {
		var out bytes.Buffer
		if err := xml.EscapeText(&out, []byte(string(r))); err != nil {
			rows = nil
			break
		}
		var os []string
		for _, o := range out.String() {
			os = append(os, strconv.Itoa(int(o)))
		}
		rows = append(rows, fmt.Sprintf("(%d, [%s])", r, strings.Join(os, ", ")))
	}
	if rows != nil {
		fmt.Fprintf(&sb, "/-- code point ↦ code points `xml.EscapeText` writes for it -/\ndef escapeTable : Option (List (Nat × List Nat)) := some [\n  %s]\n\n", strings.Join(rows, ",\n  "))
	} else {
		sb.WriteString("def escapeTable : Option (List (Nat × List Nat)) := none\n\n")
	}

	// ---- 3. stream.ParseVersion on a finite domain ----
	alpha := []string{"0", "1", "2", "9", ".", "+", "-", "a", " "}
	var strs []string
	var rec func(prefix string, n int)
	rec = func(prefix string, n int) {
		strs = append(strs, prefix)
		if n == 0 {
			return
		}
		for _, a := range alpha {
			rec(prefix+a, n-1)
		}
	}
	rec("", 3)
	strs = append(strs, "255.255", "256.0", "0.256", "01.00", "1.0.0", "1..0", "00001.0", "1.0000", "10.10", "1.0 ", " 1.0", "1,0", "１.0", "1_0.0", "0x1.0")
	var vrows []string
	for _, s := range strs {
		v, err := stream.ParseVersion(s)
		if err != nil {
			vrows = append(vrows, fmt.Sprintf("(%s, none)", leanStr(s)))
		} else {
			vrows = append(vrows, fmt.Sprintf("(%s, some (%d, %d))", leanStr(s), v.Major, v.Minor))
		}
	}
	fmt.Fprintf(&sb, "/-- string ↦ result of the real `stream.ParseVersion` -/\ndef versionTable : Option (List (String × Option (Nat × Nat))) := some [\n  %s]\n\n", strings.Join(vrows, ",\n  "))
	// ---- 3b. Info.FromStartElement on a finite grid of attribute names ----
	spaces := []string{"", "xml", "http://www.w3.org/XML/1998/namespace", "urn:example:x", "http://etherx.jabber.org/streams", "xmlns", "jabber:client", "urn:ietf:params:xml:ns:xmpp-framing"}
	locals := []string{"id", "version", "to", "from", "lang", "xmlns", "ID", "stream", "x"}
	var grows []string
	for _, sp := range spaces {
		for _, lo := range locals {
			v := "v.example"
			if lo == "version" {
				v = "1.0"
			}
			var info stream.Info
			err := info.FromStartElement(xml.StartElement{Attr: []xml.Attr{{Name: xml.Name{Space: sp, Local: lo}, Value: v}}})
			res := "none"
			if err == nil {
				res = fmt.Sprintf("some ([%s, %s, %s, %s, %s], %d, %d)", leanStr(info.XMLNS), leanStr(info.To.String()), leanStr(info.From.String()), leanStr(info.ID), leanStr(info.Lang), info.Version.Major, info.Version.Minor)
			}
			grows = append(grows, fmt.Sprintf("(%s, %s, %s, %s)", leanStr(sp), leanStr(lo), leanStr(v), res))
		}
	}
	fmt.Fprintf(&sb, "/-- (attribute namespace, local name, value) ↦ what the real `Info.FromStartElement` records for a start\nelement with that single attribute: ([xmlns, to, from, id, lang], major, minor) -/\ndef attrGrid : Option (List (String × String × String × Option (List String × Nat × Nat))) := some [\n  %s]\n\n", strings.Join(grows, ",\n  "))

	// ---- 3c. round F: FromStartElement on an ESTABLISHED Info: empty / new / invalid value per attribute ----
	var krows []string
	for _, sp := range []string{"", "urn:example:x", "http://www.w3.org/XML/1998/namespace"} {
		for _, lo := range []string{"to", "from", "id", "xmlns", "version", "lang"} {
			for _, v := range []string{"", "new.example", "a@@b", "1.0"} {
				info := stream.Info{XMLNS: "jabber:client", To: jid.MustParse("est.example"), From: jid.MustParse("u@est.example/r"), ID: "old", Lang: "en", Version: stream.Version{Major: 1, Minor: 0}}
				err := info.FromStartElement(xml.StartElement{Attr: []xml.Attr{{Name: xml.Name{Space: sp, Local: lo}, Value: v}}})
				res := "none"
				if err == nil {
					res = fmt.Sprintf("some ([%s, %s, %s, %s, %s], %d, %d)", leanStr(info.XMLNS), leanStr(info.To.String()), leanStr(info.From.String()), leanStr(info.ID), leanStr(info.Lang), info.Version.Major, info.Version.Minor)
				}
				krows = append(krows, fmt.Sprintf("(%s, %s, %s, %s)", leanStr(sp), leanStr(lo), leanStr(v), res))
			}
		}
	}
	fmt.Fprintf(&sb, "/-- (attribute namespace, local name, value) ↦ what the real `Info.FromStartElement` leaves in an ESTABLISHED\nstream information (xmlns=jabber:client to=est.example from=u@est.example/r id=old lang=en version=1.0) -/\ndef attrKeepGrid : Option (List (String × String × String × Option (List String × Nat × Nat))) := some [\n  %s]\n\n", strings.Join(krows, ",\n  "))

	// ---- 4. shared mutable state of the bind feature ----
	names, ok, aerr := astfacts.SharedWrites(filepath.Join(repo, "bind.go"), "bind")
	sb.WriteString("/-- variables of `bind` (bind.go) written (or address-taken) inside the closures of the feature it returns -/\n")
	if aerr != nil || !ok {
		sb.WriteString("def bindClosureWrites : Option (List String) := none\n\n")
	} else {
		var l []string
		for _, n := range names {
			l = append(l, leanStr(n))
		}
		fmt.Fprintf(&sb, "def bindClosureWrites : Option (List String) := some [%s]\n\n", strings.Join(l, ", "))
	}
	cnames, cok, cerr := astfacts.CapturedCallResults(filepath.Join(repo, "bind.go"), "bind")
	sb.WriteString("/-- variables of `bind` initialised with a call result outside the closures and used inside them -/\n")
	if cerr != nil || !cok {
		sb.WriteString("def bindCapturedCallResults : Option (List String) := none\n\n")
	} else {
		var l []string
		for _, n := range cnames {
			l = append(l, leanStr(n))
		}
		fmt.Fprintf(&sb, "def bindCapturedCallResults : Option (List String) := some [%s]\n\n", strings.Join(l, ", "))
	}
	// ---- 5. round D: the address comparison on all pairs, the header after every history ----
	sb.WriteString(jidEqualProbe())
	sb.WriteString(sendHistoryProbe())
	sb.WriteString(negSharedProbe())
	sb.WriteString(bindSharedProbe())
	sb.WriteString("end XmppModel.Generated.C12\n")
	return sb.String(), nil
}
