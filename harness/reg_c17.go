package main

import "verifharness/c17"

func init() { runners["C17"] = c17.Run; facts["C17"] = c17.Facts }
