package main

import "verifharness/c01"

func init() { runners["C01"] = c01.Run }
