package main

import "verifharness/c01"

func init() { runners["C01"] = c01.Run; facts["C01"] = c01.Facts }
