// Package c16 drives jid.Escape / jid.Unescape (property C16).
//
// Protocol lines (all byte strings hex):
//
//	estepok <cap> <src> <atEOF> <nSrc> <err> <out> -> ok | bad:<why>   one observed Transform call of Escape,
//	ustepok ...                                                       judged against the contract StepOK (a relation)
//	espanok / uspanok <src> <atEOF> <n> <err>     -> ok | bad:<why>   one observed Span call
//	estep <cap> <src> <atEOF>  -> <nSrc> <err> <out>     (only for calls that panic / return a foreign error)
//	ustep <cap> <src> <atEOF>  -> <nSrc> <err> <out>     one Transform call of Unescape
//	espan <src> <atEOF>        -> <n> <err>
//	uspan <src> <atEOF>        -> <n> <err>
//	estr  <src>                -> <out>                  whole-string result
//	ustr  <src>                -> <out>
//
// estr/ustr lines are emitted once per interface (String, Bytes, transform
// Reader / Writer under a chunking, a hand loop with tiny destinations) so the
// model's whole-string function is compared with every way of applying the
// transformer.
package c16

import (
	"bytes"
	"errors"
	"fmt"
	"io"
	"strconv"
	"strings"
	"time"

	"golang.org/x/text/transform"
	"mellium.im/xmpp/jid"

	"verifharness/common"
)

const escSet = ` "&'/:<>@\`

func errName(err error) string {
	switch {
	case err == nil:
		return "nil"
	case errors.Is(err, transform.ErrShortDst):
		return "shortdst"
	case errors.Is(err, transform.ErrShortSrc):
		return "shortsrc"
	case errors.Is(err, transform.ErrEndOfSpan):
		return "endofspan"
	}
	return "other:" + err.Error()
}

type stepRes struct {
	nDst, nSrc int
	err        string
	out        []byte
	panicked   string
}

func step(t jid.Transformer, cap int, src []byte, atEOF bool) (res stepRes) {
	defer func() {
		if p := recover(); p != nil {
			res = stepRes{panicked: fmt.Sprint(p)}
		}
	}()
	dst := make([]byte, cap)
	for i := range dst {
		dst[i] = 0xEE
	}
	s := append([]byte(nil), src...)
	nDst, nSrc, err := t.Transform(dst, s, atEOF)
	res = stepRes{nDst: nDst, nSrc: nSrc, err: errName(err)}
	if nDst >= 0 && nDst <= cap {
		res.out = append([]byte(nil), dst[:nDst]...)
	}
	return res
}

func (s stepRes) obs() string {
	if s.panicked != "" {
		return "PANIC"
	}
	return fmt.Sprintf("%d %s %s", s.nSrc, s.err, common.Hex(s.out))
}

// chunkReader returns at most sizes[i%len] bytes per Read.
type chunkReader struct {
	b     []byte
	sizes []int
	i     int
}

func (c *chunkReader) Read(p []byte) (int, error) {
	if len(c.b) == 0 {
		return 0, io.EOF
	}
	n := c.sizes[c.i%len(c.sizes)]
	c.i++
	if n > len(p) {
		n = len(p)
	}
	if n > len(c.b) {
		n = len(c.b)
	}
	copy(p, c.b[:n])
	c.b = c.b[n:]
	return n, nil
}

// handLoop applies t with the given destination capacity and source chunking
// the way transform.Reader does, but with buffers as small as asked.
func handLoop(t jid.Transformer, s []byte, cap int, sizes []int) (out []byte, err error) {
	defer func() {
		if p := recover(); p != nil {
			out, err = nil, fmt.Errorf("PANIC: %v", p)
		}
	}()
	var buf []byte
	pending := s
	i := 0
	for iter := 0; iter < 16*len(s)+64; iter++ {
		atEOF := len(pending) == 0
		dst := make([]byte, cap)
		nDst, nSrc, e := t.Transform(dst, buf, atEOF)
		if nDst < 0 || nDst > cap || nSrc < 0 || nSrc > len(buf) {
			return nil, fmt.Errorf("bad counts nDst=%d nSrc=%d", nDst, nSrc)
		}
		out = append(out, dst[:nDst]...)
		buf = buf[nSrc:]
		switch {
		case e == nil && len(buf) != 0:
			return nil, fmt.Errorf("nil error with %d unconsumed bytes", len(buf))
		case e == nil || errors.Is(e, transform.ErrShortSrc):
			if atEOF {
				if e != nil {
					return nil, fmt.Errorf("ErrShortSrc at EOF")
				}
				return out, nil
			}
			n := sizes[i%len(sizes)]
			i++
			if n > len(pending) {
				n = len(pending)
			}
			buf = append(append([]byte(nil), buf...), pending[:n]...)
			pending = pending[n:]
		case errors.Is(e, transform.ErrShortDst):
			// loop again with a fresh destination
		default:
			return nil, e
		}
	}
	return nil, fmt.Errorf("no progress")
}

func refEscape(s []byte) []byte {
	var o []byte
	for _, c := range s {
		if strings.IndexByte(escSet, c) >= 0 {
			o = append(o, '\\', "0123456789abcdef"[c>>4], "0123456789abcdef"[c&15])
		} else {
			o = append(o, c)
		}
	}
	return o
}

var codes = map[string]byte{"20": ' ', "22": '"', "26": '&', "27": '\'', "2f": '/', "3a": ':', "3c": '<', "3e": '>', "40": '@', "5c": '\\'}

func refUnescape(s []byte) []byte {
	var o []byte
	for i := 0; i < len(s); {
		if s[i] == '\\' && i+2 < len(s) {
			if c, ok := codes[strings.ToLower(string(s[i+1:i+3]))]; ok {
				o = append(o, c)
				i += 3
				continue
			}
		}
		o = append(o, s[i])
		i++
	}
	return o
}

type iface struct {
	name string
	f    func(t jid.Transformer, s []byte) ([]byte, error)
}

func safe(f func() ([]byte, error)) (out []byte, err error) {
	defer func() {
		if p := recover(); p != nil {
			out, err = nil, fmt.Errorf("PANIC: %v", p)
		}
	}()
	return f()
}

func interfaces(sizes []int, cap int) []iface {
	return []iface{
		{"String", func(t jid.Transformer, s []byte) ([]byte, error) {
			return safe(func() ([]byte, error) { return []byte(t.String(string(s))), nil })
		}},
		{"Bytes", func(t jid.Transformer, s []byte) ([]byte, error) {
			return safe(func() ([]byte, error) { return t.Bytes(append([]byte(nil), s...)), nil })
		}},
		{"Reader", func(t jid.Transformer, s []byte) ([]byte, error) {
			return safe(func() ([]byte, error) {
				return io.ReadAll(transform.NewReader(&chunkReader{b: append([]byte(nil), s...), sizes: sizes}, t))
			})
		}},
		{"Writer", func(t jid.Transformer, s []byte) ([]byte, error) {
			return safe(func() ([]byte, error) {
				var o bytes.Buffer
				w := transform.NewWriter(&o, t)
				b := append([]byte(nil), s...)
				i := 0
				for len(b) > 0 {
					n := sizes[i%len(sizes)]
					i++
					if n > len(b) {
						n = len(b)
					}
					if _, err := w.Write(b[:n]); err != nil {
						return nil, err
					}
					b = b[n:]
				}
				if err := w.Close(); err != nil {
					return nil, err
				}
				return o.Bytes(), nil
			})
		}},
		{"Loop", func(t jid.Transformer, s []byte) ([]byte, error) { return handLoop(t, s, cap, sizes) }},
		// round D: transform.Append into a destination that already holds bytes and has `cap`
		// (tiny) or sizes[0]*40 (around the 128-byte growth step) bytes of spare capacity
		{"Append", func(t jid.Transformer, s []byte) ([]byte, error) {
			return safe(func() ([]byte, error) {
				for _, spare := range []int{cap, sizes[0] * 40} {
					dst := append(make([]byte, 0, 2+spare), 'd', 's')
					out, _, err := transform.Append(t, dst, append([]byte(nil), s...))
					if err != nil {
						return nil, err
					}
					if len(out) < 2 || out[0] != 'd' || out[1] != 's' {
						return nil, fmt.Errorf("Append lost the destination prefix: %q", out)
					}
					if spare == cap {
						continue
					}
					return out[2:], nil
				}
				return nil, nil
			})
		}},
		// the transformer as one stage of a transform.Chain (the chain has its own 128-byte
		// buffers between the stages and forwards ErrShortSrc / ErrShortDst / atEOF)
		{"ChainAfterNop", func(t jid.Transformer, s []byte) ([]byte, error) {
			return safe(func() ([]byte, error) {
				return io.ReadAll(transform.NewReader(&chunkReader{b: append([]byte(nil), s...), sizes: sizes}, transform.Chain(transform.Nop, t)))
			})
		}},
		{"ChainBeforeNop", func(t jid.Transformer, s []byte) ([]byte, error) {
			return safe(func() ([]byte, error) {
				out, _, err := transform.Bytes(transform.Chain(t, transform.Nop, transform.Nop), append([]byte(nil), s...))
				return out, err
			})
		}},
		// the same value again after a stream that was abandoned in the middle of an escape
		// sequence (short source pending, short destination pending) and a Reset
		{"Reuse", func(t jid.Transformer, s []byte) ([]byte, error) {
			return safe(func() ([]byte, error) {
				_, _, _ = t.Transform(make([]byte, 4), []byte(`x\2`), false)
				_, _, _ = t.Transform(make([]byte, 2), []byte(`ab c@d\20`), false)
				_, _ = t.Span([]byte(`q\`), false)
				t.Reset()
				return handLoop(t, s, cap+1, sizes)
			})
		}},
	}
}

// chainRoundTrip: transform.Chain(Escape, Unescape) is the identity as a stream, for
// every chunking of the source (theorem C16_chain_roundtrip).
func (c *ctx) chainRoundTrip(s []byte, sizes []int) {
	r := c.r
	hs := common.Hex(s)
	for _, how := range []string{"Reader", "Bytes"} {
		out, err := safe(func() ([]byte, error) {
			ch := transform.Chain(jid.Escape, jid.Unescape)
			if how == "Bytes" {
				o, _, err := transform.Bytes(ch, append([]byte(nil), s...))
				return o, err
			}
			return io.ReadAll(transform.NewReader(&chunkReader{b: append([]byte(nil), s...), sizes: sizes}, ch))
		})
		// correspondence: the model's unescape (escape s)
		r.Line("chain "+hs, obsBytes(out, err))
		if err != nil || !bytes.Equal(out, s) {
			r.Fail("roundtrip", "chain/"+how, []string{r.Prop + " chain " + hs, fmt.Sprintf("#iface=Chain(Escape,Unescape) via %s sizes=%v", how, sizes)},
				fmt.Sprintf("Chain(Escape, Unescape)(%q) = %q (%v)", clipB(s), clipB(out), err))
		}
	}
}

func clipB(b []byte) []byte {
	if len(b) > 120 {
		return append(append(append([]byte(nil), b[:50]...), "..."...), b[len(b)-50:]...)
	}
	return b
}

type ctx struct {
	r *common.Run
	// basicOnly: skip the round-D interfaces (Append, Chain*, Reuse, chain round trip); set for the
	// repeated chunkings of the exhaustive enumeration, where the first chunking already ran them
	basicOnly bool
}

func obsBytes(b []byte, err error) string {
	if err != nil {
		if strings.HasPrefix(err.Error(), "PANIC") {
			return "PANIC"
		}
		return "ERR"
	}
	return common.Hex(b)
}

// whole runs every interface on s for both transformers and evaluates the
// property's own clauses on the real code.
func (c *ctx) whole(s []byte, sizes []int, cap int, class string) {
	r := c.r
	hs := common.Hex(s)
	nontriv := bytes.ContainsAny(s, escSet)
	r.Case("whole "+hs, nontriv, class)
	for _, tr := range []struct {
		op  string
		t   jid.Transformer
		ref func([]byte) []byte
	}{{"estr", jid.Escape, refEscape}, {"ustr", jid.Unescape, refUnescape}} {
		var first []byte
		for k, it := range interfaces(sizes, cap) {
			if c.basicOnly && k >= 5 {
				break
			}
			out, err := it.f(tr.t, s)
			line := tr.op + " " + hs
			r.Line(line, obsBytes(out, err))
			lines := []string{r.Prop + " " + line, fmt.Sprintf("#iface=%s sizes=%v cap=%d", it.name, sizes, cap)}
			if err != nil {
				cl := "total"
				if !strings.HasPrefix(err.Error(), "PANIC") {
					cl = "chunk-independent"
				}
				r.Fail(cl, tr.op+"/"+it.name, lines, err.Error())
				continue
			}
			if k == 0 {
				first = out
				if !bytes.Equal(out, tr.ref(s)) {
					r.Fail("exact-mapping", tr.op+"/"+it.name, lines,
						fmt.Sprintf("got %q want %q", out, tr.ref(s)))
				}
			} else if !bytes.Equal(out, first) {
				r.Fail("chunk-independent", tr.op+"/"+it.name, lines,
					fmt.Sprintf("%s gives %q, String gives %q", it.name, out, first))
			}
		}
	}
	if !c.basicOnly {
		c.chainRoundTrip(s, sizes)
	}
	// round trip and cleanliness on the real code
	e, err := safe(func() ([]byte, error) { return []byte(jid.Escape.String(string(s))), nil })
	if err == nil {
		if bytes.ContainsAny(e, ` "&'/:<>@`) {
			r.Fail("escape-clean", "estr", []string{r.Prop + " estr " + hs}, fmt.Sprintf("escaped form %q", e))
		}
		u, err2 := safe(func() ([]byte, error) { return []byte(jid.Unescape.String(string(e))), nil })
		if err2 != nil || !bytes.Equal(u, s) {
			r.Fail("roundtrip", "rt", []string{r.Prop + " estr " + hs, r.Prop + " ustr " + common.Hex(e)},
				fmt.Sprintf("Unescape(Escape(%q)) = %q (%v)", s, u, err2))
		}
	}
}

var probeRests = []string{"", "2", "20", "0", "5c", "5C", "F", `\`, `\20`, "a", " ", "3a"}

// contract judges one observed Transform call against the contract of the theorems (StepOK):
// the bytes produced are the beginning of f(whole input) and the unconsumed rest continues it,
// for the actual input and, when not at EOF, for every continuation that can change the
// verdict.  Independent of the model (own reference functions).
func contract(ref func([]byte) []byte, cap int, src []byte, atEOF bool, nSrc int, out []byte) string {
	if nSrc < 0 || nSrc > len(src) {
		return fmt.Sprintf("nSrc = %d of %d", nSrc, len(src))
	}
	if len(out) > cap {
		return "more output than capacity"
	}
	rests := probeRests
	if atEOF {
		rests = probeRests[:1]
	}
	for _, rest := range rests {
		whole := ref(append(append([]byte(nil), src...), rest...))
		tail := ref(append(append([]byte(nil), src[nSrc:]...), rest...))
		if !bytes.Equal(append(append([]byte(nil), out...), tail...), whole) {
			return fmt.Sprintf("followed by %q: produced %q + f(rest) %q, f(whole) = %q", rest, out, tail, whole)
		}
	}
	return ""
}

// steps compares single Transform / Span calls.
func (c *ctx) steps(s []byte, caps []int) {
	r := c.r
	hs := common.Hex(s)
	for _, atEOF := range []bool{false, true} {
		for _, tr := range []struct {
			op string
			t  jid.Transformer
		}{{"e", jid.Escape}, {"u", jid.Unescape}} {
			for _, cap := range caps {
				res := step(tr.t, cap, s, atEOF)
				// a relation (round E): the observed call travels with the line and the driver
				// judges it against the contract StepOK instead of predicting one result
				line := fmt.Sprintf("%sstep %d %s %s", tr.op, cap, hs, common.B(atEOF))
				if res.panicked != "" || strings.HasPrefix(res.err, "other:") || res.nSrc < 0 {
					r.Line(line, res.obs())
				} else {
					line = fmt.Sprintf("%sstepok %d %s %s %s", tr.op, cap, hs, common.B(atEOF), res.obs())
					r.Line(line, "ok")
					ref := refEscape
					if tr.op == "u" {
						ref = refUnescape
					}
					if bad := contract(ref, cap, s, atEOF, res.nSrc, res.out); bad != "" {
						r.Fail("chunk-independent", tr.op+"step/contract", []string{r.Prop + " " + line},
							fmt.Sprintf("Transform(cap %d, %q, atEOF=%v) = (%d, %s, %q): %s", cap, s, atEOF, res.nSrc, res.err, res.out, bad))
					}
				}
				r.Case(line, res.err == "nil" || len(res.out) > 0, "step-"+res.err)
				if res.panicked != "" {
					r.Fail("total", tr.op+"step", []string{r.Prop + " " + line}, "panic: "+res.panicked)
				}
			}
			n, err := func() (n int, err error) {
				defer func() {
					if p := recover(); p != nil {
						n, err = -1, fmt.Errorf("PANIC %v", p)
					}
				}()
				return tr.t.Span(append([]byte(nil), s...), atEOF)
			}()
			line := fmt.Sprintf("%sspan %s %s", tr.op, hs, common.B(atEOF))
			if n < 0 {
				r.Line(line, "PANIC")
				r.Fail("total", tr.op+"span", []string{r.Prop + " " + line}, err.Error())
			} else if strings.HasPrefix(errName(err), "other:") {
				r.Line(line, fmt.Sprintf("%d %s", n, errName(err)))
			} else {
				r.Line(fmt.Sprintf("%sspanok %s %s %d %s", tr.op, hs, common.B(atEOF), n, errName(err)), "ok")
			}
		}
	}
}

var alphabet = []byte{'a', ' ', '\\', '2', '0', 'f', 'F', '5', 'c'}

func enumerate(n int, f func([]byte)) {
	buf := make([]byte, n)
	var rec func(i int)
	rec = func(i int) {
		if i == n {
			f(append([]byte(nil), buf...))
			return
		}
		for _, c := range alphabet {
			buf[i] = c
			rec(i + 1)
		}
	}
	rec(0)
}

func genString(rnd *common.Rand, maxLen int) []byte {
	n := rnd.Intn(maxLen + 1)
	b := make([]byte, 0, n)
	for len(b) < n {
		switch rnd.Intn(10) {
		case 0, 1:
			b = append(b, escSet[rnd.Intn(len(escSet))])
		case 2, 3:
			// an escape sequence, valid or almost
			hexd := "0123456789abcdefABCDEF"
			b = append(b, '\\')
			if rnd.Chance(3, 4) {
				cs := []string{"20", "22", "26", "27", "2f", "2F", "3a", "3A", "3c", "3C", "3e", "3E", "40", "5c", "5C"}
				b = append(b, cs[rnd.Intn(len(cs))]...)
			} else {
				b = append(b, hexd[rnd.Intn(len(hexd))], hexd[rnd.Intn(len(hexd))])
			}
		case 4:
			b = append(b, '\\')
		case 5:
			b = append(b, byte(rnd.Intn(256)))
		default:
			b = append(b, "abcxyz0123456789fFcC"[rnd.Intn(20)])
		}
	}
	return b
}

// Run is the C16 runner.
func Run(r *common.Run) error {
	c := &ctx{r: r}
	if r.Replay != "" {
		lines, err := common.ReplayLines(r.Replay)
		if err != nil {
			return err
		}
		var replayInputs [][]byte
		for _, l := range lines {
			f := strings.Fields(l)
			if len(f) < 3 || f[0] != "C16" {
				continue
			}
			if k := map[string]int{"estr": 2, "ustr": 2, "chain": 2, "espan": 2, "uspan": 2, "estep": 3, "ustep": 3, "espanok": 2, "uspanok": 2, "estepok": 3, "ustepok": 3}[f[1]]; k > 0 && k < len(f) {
				if b, err := common.UnHex(f[k]); err == nil && len(replayInputs) < 16 {
					replayInputs = append(replayInputs, b)
				}
			}
			switch f[1] {
			case "estr", "ustr", "chain":
				s, _ := common.UnHex(f[2])
				for _, sz := range [][]int{{1}, {2}, {3}, {1, 2}, {7}} {
					for _, cap := range []int{3, 4, 5} {
						c.whole(s, sz, cap, "replay")
					}
				}
			case "estep", "ustep", "estepok", "ustepok":
				s, _ := common.UnHex(f[3])
				cap, _ := strconv.Atoi(f[2])
				c.steps(s, []int{cap})
			case "espan", "uspan", "espanok", "uspanok":
				s, _ := common.UnHex(f[2])
				c.steps(s, []int{4})
			}
		}
		// the inputs of the replay side by side on the shared package-level values
		c.concurrent(replayInputs, 200000, 3*time.Second, "replay-concurrent")
		return nil
	}
	if r.Race() {
		// race tier: only the concurrent scenario (the detector reports any unsynchronised
		// access to memory shared through the package-level values)
		c.concurrent(concInputs(), 2000, 20*time.Second, "concurrent")
		return nil
	}

	// corpus: minimal witnesses of past failures, always first
	for _, s := range []string{`a\20`, `ab\20`, `abc\5c`, `\\20`, `\5c20`, `a b`, ` `, `\`, `\2`, `\20`, `x\\2`} {
		c.steps([]byte(s), []int{0, 1, 2, 3, 4, 8})
		for _, sz := range [][]int{{1}, {2}, {3}} {
			c.whole([]byte(s), sz, 3, "corpus")
		}
	}
	long := bytes.Repeat([]byte("ab c"), 70)
	c.whole(long, []int{5}, 4, "corpus-long")
	c.whole([]byte(jid.Escape.String(string(long))), []int{5}, 4, "corpus-long")

	// the package-level values used by many goroutines at once (one per escapable byte)
	c.concurrent(concInputs(), r.Pick(20000, 100000), time.Duration(r.Pick(2, 8))*time.Second, "concurrent")

	// boundary structure: a long prefix WITHOUT anything to transform, then the first escapable
	// character / escape sequence exactly around the internal buffer sizes of x/text/transform
	// (128-byte initial destination, 4096-byte reader/writer buffers) and of any "fast path"
	// that looks at a bounded prefix only
	var prefixLens []int
	for _, c := range []int{0, 64, 128, 256, 512, 1024, 4096, 8192} {
		for d := -3; d <= 3; d++ {
			if c+d >= 0 {
				prefixLens = append(prefixLens, c+d)
			}
		}
	}
	for _, pl := range prefixLens {
		if r.Quick() && pl > 4200 {
			continue
		}
		for _, tail := range []string{" ", "@x", `\20`, `\5c`, `\5C5c`, `\`, `\2`, `\\20`, "a b\\3a"} {
			for _, suffix := range []string{"", "zz"} {
				doc := append(bytes.Repeat([]byte("a"), pl), []byte(tail+suffix)...)
				c.whole(doc, []int{7}, 4, "boundary")
			}
		}
	}

	// exhaustive: every string up to length L over the alphabet, every
	// destination capacity 0..cap, both atEOF values, all interfaces.
	maxLen := r.Pick(4, 6)
	for n := 0; n <= maxLen; n++ {
		enumerate(n, func(s []byte) {
			if n <= r.Pick(4, 5) {
				c.steps(s, []int{0, 1, 2, 3, 4, 5, 7})
			}
			for k, sz := range [][]int{{1}, {2}, {3}, {1, 2}} {
				c.basicOnly = k > 0 && k != n%4
				c.whole(s, sz, 3+len(sz), "exhaustive")
			}
			c.basicOnly = false
		})
	}
	r.Exhaustive = append(r.Exhaustive, fmt.Sprintf("all strings of length <= %d over %q x caps x atEOF x interfaces", maxLen, alphabet))

	// random: longer strings, capacities around the internal buffer sizes of
	// x/text/transform (128 initial, 4096 default) and tiny ones.
	rnd := r.Rnd
	nRandom := r.Pick(3000, 60000)
	for i := 0; i < nRandom; i++ {
		maxL := 24
		if i%10 == 0 {
			maxL = 300
		}
		if i%200 == 0 {
			maxL = 9000
		}
		s := genString(rnd, maxL)
		sizes := make([]int, 1+rnd.Intn(3))
		for k := range sizes {
			sizes[k] = 1 + rnd.Intn(6)
			if rnd.Chance(1, 8) {
				sizes[k] = 1 + rnd.Intn(200)
			}
		}
		c.whole(s, sizes, 3+rnd.Intn(6), "random")
		if len(s) <= 64 {
			caps := []int{rnd.Intn(8), rnd.Intn(40), 126 + rnd.Intn(7)}
			c.steps(s, caps)
		}
	}
	return nil
}

// Facts regenerates lean/XmppModel/Generated/C16.lean.  Every fact is a *probe*: the real
// code is run on a complete finite domain through the exported API and the resulting table is
// emitted, so the facts do not depend on how jid/escape.go is written (names of constants,
// helpers, switch or if), only on what it computes:
//
//	escapeSet / escapeTable  jid.Escape on each of the 256 one-byte strings
//	unescapeTable            jid.Unescape on `\\ab` for all 65536 byte pairs (a, b)
//	sharedStateWrites        deep snapshot of everything reachable from the two package-level
//	                         values before and after a battery of calls (state.go)
func Facts(repo string) (string, error) {
	var sb strings.Builder
	sb.WriteString("-- GENERATED by `harness facts C16` by running the real jid.Escape / jid.Unescape; do not edit.\n")
	sb.WriteString("namespace XmppModel.Generated.C16\n\n")
	var el, et []string
	okE := true
	for c := 0; c < 256; c++ {
		in := []byte{byte(c)}
		out, err := safe(func() ([]byte, error) { return jid.Escape.Bytes(append([]byte(nil), in...)), nil })
		out2, err2 := safe(func() ([]byte, error) { return []byte(jid.Escape.String(string(in))), nil })
		switch {
		case err != nil || err2 != nil || !bytes.Equal(out, out2):
			okE = false
		case bytes.Equal(out, in):
		default:
			el = append(el, fmt.Sprintf("0x%02x", c))
			var ol []string
			for _, o := range out {
				ol = append(ol, fmt.Sprintf("0x%02x", o))
			}
			et = append(et, fmt.Sprintf("(0x%02x, [%s])", c, strings.Join(ol, ", ")))
		}
	}
	if okE {
		fmt.Fprintf(&sb, "/-- the bytes `jid.Escape` rewrites (each of the 256 one-byte strings evaluated), ascending -/\ndef escapeSet : Option (List UInt8) := some [%s]\n\n", strings.Join(el, ", "))
		fmt.Fprintf(&sb, "/-- … with what it writes for them -/\ndef escapeTable : Option (List (UInt8 × List UInt8)) := some [\n  %s]\n\n", strings.Join(et, ",\n  "))
	} else {
		sb.WriteString("def escapeSet : Option (List UInt8) := none\n\ndef escapeTable : Option (List (UInt8 × List UInt8)) := none\n\n")
	}
	var tl []string
	bad := false
	for a := 0; a < 256; a++ {
		for b := 0; b < 256; b++ {
			in := []byte{'\\', byte(a), byte(b)}
			out, err := safe(func() ([]byte, error) { return jid.Unescape.Bytes(append([]byte(nil), in...)), nil })
			switch {
			case err != nil:
				bad = true
			case bytes.Equal(out, in):
			case len(out) == 1:
				tl = append(tl, fmt.Sprintf("(0x%02x, 0x%02x, 0x%02x)", a, b, out[0]))
			default:
				bad = true
			}
		}
	}
	if bad {
		sb.WriteString("def unescapeTable : Option (List (UInt8 × UInt8 × UInt8)) := none\n")
	} else {
		fmt.Fprintf(&sb, "/-- every pair (a,b) for which the real `jid.Unescape` rewrites `\\\\ab`, with the byte produced\n(all 65536 pairs evaluated) -/\ndef unescapeTable : Option (List (UInt8 × UInt8 × UInt8)) := some [\n  %s]\n", strings.Join(tl, ",\n  "))
	}
	// round E (review C16-3): the two tables hold at offset 0 of a one-escape string.  Probe them
	// behind prefixes as well (ordinary bytes, after a previous escape, after an incomplete
	// escape): the transform of prefix+item must be transform(prefix) followed by the table's
	// answer for the item.  Count of items for which it is not, per prefix.
	offs := func(t jid.Transformer, prefixes []string, items func(f func(item []byte))) string {
		var el []string
		for _, p := range prefixes {
			pre, err := safe(func() ([]byte, error) { return t.Bytes([]byte(p)), nil })
			if err != nil {
				return "none"
			}
			n := 0
			items(func(item []byte) {
				alone, err1 := safe(func() ([]byte, error) { return t.Bytes(append([]byte(nil), item...)), nil })
				both, err2 := safe(func() ([]byte, error) { return t.Bytes(append([]byte(p), item...)), nil })
				if err1 != nil || err2 != nil || !bytes.Equal(both, append(append([]byte(nil), pre...), alone...)) {
					n++
				}
			})
			el = append(el, fmt.Sprint(n))
		}
		return "some [" + strings.Join(el, ", ") + "]"
	}
	fmt.Fprintf(&sb, "\n/-- for the prefixes \"x\", \"xx\", \" x\", \"a b:\": number of bytes c for which Escape(prefix+c) is not Escape(prefix) followed by Escape(c) -/\ndef escapeOffsets : Option (List Nat) := %s\n",
		offs(jid.Escape, []string{"x", "xx", " x", "a b:"}, func(f func([]byte)) {
			for c := 0; c < 256; c++ {
				f([]byte{byte(c)})
			}
		}))
	fmt.Fprintf(&sb, "\n/-- for the prefixes \"x\", \"xx\", \"\\20\", \"\\\", \"\\2\", \"a\\3a\": number of pairs (a,b) for which Unescape(prefix+\\ab) is not Unescape(prefix) followed by Unescape(\\ab) -/\ndef unescapeOffsets : Option (List Nat) := %s\n",
		offs(jid.Unescape, []string{"x", "xx", `\20`, `\`, `\2`, `a\3a`}, func(f func([]byte)) {
			for a := 0; a < 256; a++ {
				for b := 0; b < 256; b++ {
					f([]byte{'\\', byte(a), byte(b)})
				}
			}
		}))
	we, be, ae, me := stateWrites(jid.Escape)
	wu, bu, au, mu := stateWrites(jid.Unescape)
	fmt.Fprintf(&sb, "\n/-- 0 = a battery of calls through every interface left everything reachable from the package-level\nvalue unchanged; [jid.Escape, jid.Unescape].  Reachable plain data: %d and %d bytes. -/\n", me, mu)
	fmt.Fprintf(&sb, "def sharedStateWrites : Option (List Nat) := some [%d, %d]\n", we, wu)
	if we != 0 {
		fmt.Fprintf(&sb, "-- jid.Escape before: %s\n-- jid.Escape after:  %s\n", oneLine(be), oneLine(ae))
	}
	if wu != 0 {
		fmt.Fprintf(&sb, "-- jid.Unescape before: %s\n-- jid.Unescape after:  %s\n", oneLine(bu), oneLine(au))
	}
	sb.WriteString("\nend XmppModel.Generated.C16\n")
	return sb.String(), nil
}

func oneLine(s string) string {
	s = strings.NewReplacer("\n", " ", "\r", " ").Replace(s)
	if len(s) > 400 {
		s = s[:400] + "…"
	}
	return s
}
