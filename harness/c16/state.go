package c16

// Shared state of the package-level transformers.
//
// jid.Escape and jid.Unescape are package-level VALUES: every goroutine of a
// program applies the same value.  The property demands that a result depends
// on the input only, so a call must not leave anything behind in memory that
// is reachable from the value (a scratch buffer behind a pointer receiver, a
// cached "previous byte", a counter ...).  Two independent checks:
//
//   - snapshot: a deep dump (reflect + unsafe, unexported fields included) of
//     everything reachable from the value, taken before and after a battery of
//     calls through every interface.  Deterministic; becomes the regenerated
//     fact `sharedStateWrites` consumed by C16_gen_shared_state.  Values of the
//     packages sync and sync/atomic are opaque (they are made for sharing), and
//     the first battery is a warm-up so that lazily built immutable tables do
//     not count.
//   - concurrent: goroutines apply the shared values to their own inputs and
//     buffers at the same time; every result must equal the result of the same
//     call made alone (which the correspondence lines tie to the model).

import (
	"bytes"
	"fmt"
	"reflect"
	"runtime"
	"strings"
	"sync"
	"sync/atomic"
	"time"
	"unsafe"

	"mellium.im/xmpp/jid"

	"verifharness/common"
)

type dumper struct {
	sb   strings.Builder
	seen map[uintptr]bool
	n    int // bytes of plain data reachable
}

func (d *dumper) dump(v reflect.Value, depth int) {
	if depth > 12 {
		d.sb.WriteString("…")
		return
	}
	if !v.IsValid() {
		d.sb.WriteString("nil")
		return
	}
	if pk := v.Type().PkgPath(); pk == "sync" || pk == "sync/atomic" {
		d.sb.WriteString("<" + v.Type().String() + ">")
		return
	}
	switch v.Kind() {
	case reflect.Bool:
		fmt.Fprintf(&d.sb, "%v", v.Bool())
		d.n++
	case reflect.Int, reflect.Int8, reflect.Int16, reflect.Int32, reflect.Int64:
		fmt.Fprintf(&d.sb, "%d", v.Int())
		d.n += int(v.Type().Size())
	case reflect.Uint, reflect.Uint8, reflect.Uint16, reflect.Uint32, reflect.Uint64, reflect.Uintptr:
		fmt.Fprintf(&d.sb, "%d", v.Uint())
		d.n += int(v.Type().Size())
	case reflect.Float32, reflect.Float64:
		fmt.Fprintf(&d.sb, "%v", v.Float())
		d.n += int(v.Type().Size())
	case reflect.Complex64, reflect.Complex128:
		fmt.Fprintf(&d.sb, "%v", v.Complex())
		d.n += int(v.Type().Size())
	case reflect.String:
		fmt.Fprintf(&d.sb, "%q", v.String())
	case reflect.Array:
		d.sb.WriteString("[")
		for i := 0; i < v.Len(); i++ {
			d.dump(v.Index(i), depth+1)
			d.sb.WriteString(",")
		}
		d.sb.WriteString("]")
	case reflect.Slice:
		if v.IsNil() {
			d.sb.WriteString("nil")
			return
		}
		fmt.Fprintf(&d.sb, "s%d[", v.Len())
		// the whole backing array up to cap is state, too
		w := v
		if v.Cap() > v.Len() && v.Cap() < 1<<16 {
			w = v.Slice(0, v.Cap())
		}
		for i := 0; i < w.Len() && i < 1<<16; i++ {
			d.dump(w.Index(i), depth+1)
			d.sb.WriteString(",")
		}
		d.sb.WriteString("]")
	case reflect.Struct:
		d.sb.WriteString(v.Type().String() + "{")
		for i := 0; i < v.NumField(); i++ {
			d.dump(v.Field(i), depth+1)
			d.sb.WriteString(";")
		}
		d.sb.WriteString("}")
	case reflect.Ptr:
		if v.IsNil() {
			d.sb.WriteString("nil")
			return
		}
		p := v.Pointer()
		if d.seen[p] {
			d.sb.WriteString("^")
			return
		}
		d.seen[p] = true
		d.sb.WriteString("&")
		d.dump(v.Elem(), depth+1)
	case reflect.Interface:
		if v.IsNil() {
			d.sb.WriteString("nil")
			return
		}
		d.sb.WriteString("i(" + v.Elem().Type().String() + ")")
		d.dump(v.Elem(), depth+1)
	case reflect.Map:
		if v.IsNil() {
			d.sb.WriteString("nil")
			return
		}
		// order-insensitive: collect and sort the entries
		var ents []string
		it := v.MapRange()
		for it.Next() {
			e := &dumper{seen: d.seen}
			e.dump(it.Key(), depth+1)
			e.sb.WriteString("=>")
			e.dump(it.Value(), depth+1)
			ents = append(ents, e.sb.String())
			d.n += e.n
		}
		sortStrings(ents)
		d.sb.WriteString("map{" + strings.Join(ents, ",") + "}")
	case reflect.Func, reflect.Chan, reflect.UnsafePointer:
		fmt.Fprintf(&d.sb, "%s@%x", v.Kind(), v.Pointer())
	default:
		d.sb.WriteString("?" + v.Kind().String())
	}
}

func sortStrings(l []string) {
	for i := 1; i < len(l); i++ {
		for j := i; j > 0 && l[j] < l[j-1]; j-- {
			l[j], l[j-1] = l[j-1], l[j]
		}
	}
}

// snapshot dumps everything reachable from the transformer value t (a copy of
// the package-level value: pointers and interfaces inside it still lead to the
// shared memory).  mutable = number of bytes of plain data found.
func snapshot(t jid.Transformer) (dump string, mutable int) {
	v := reflect.ValueOf(&t).Elem()
	// make the unexported fields readable
	v = reflect.NewAt(v.Type(), unsafe.Pointer(v.UnsafeAddr())).Elem()
	d := &dumper{seen: map[uintptr]bool{}}
	func() {
		defer func() {
			if p := recover(); p != nil {
				fmt.Fprintf(&d.sb, "PANIC(%v)", p)
			}
		}()
		d.dump(v, 0)
	}()
	return d.sb.String(), d.n
}

// battery applies t through every interface to strings that hit every
// escapable byte / every escape code, with short destinations and split
// sources, so that any scratch state a call could leave behind is written.
func battery(t jid.Transformer, salt byte, after func()) {
	var ins [][]byte
	for _, c := range []byte(escSet) {
		ins = append(ins, []byte{'a' + salt, c, 'b', c, c})
	}
	for k := range codes {
		ins = append(ins, []byte("x\\"+k+"\\"+strings.ToUpper(k)+string('a'+salt)))
	}
	ins = append(ins, []byte(`\`), []byte(`ab\2`), []byte(`\\5c`), bytes.Repeat([]byte{'&', 'a' + salt}, 100))
	for _, in := range ins {
		_, _ = safe(func() ([]byte, error) {
			_ = t.String(string(in))
			_ = t.Bytes(append([]byte(nil), in...))
			_, _ = t.Span(in, false)
			_, _ = t.Span(in, true)
			for _, cp := range []int{0, 1, 2, 3, 4, 64} {
				for _, eof := range []bool{false, true} {
					_, _, _ = t.Transform(make([]byte, cp), in, eof)
				}
			}
			_, _ = handLoop(t, in, 3, []int{1, 2})
			return nil, nil
		})
		if after != nil {
			after()
		}
	}
}

// stateWrites reports 0 when a battery of calls leaves everything reachable from
// the package-level value unchanged, 1 otherwise (with both dumps).
func stateWrites(t jid.Transformer) (n int, before, after string, mutable int) {
	battery(t, 0, nil) // warm-up: lazily initialised tables are built here
	before, mutable = snapshot(t)
	after = before
	// compared after every input: state that happens to return to its old value at the end of
	// the battery still counts
	battery(t, 1, func() {
		if n == 0 {
			if now, _ := snapshot(t); now != before {
				n, after = 1, now
			}
		}
	})
	return
}

// ---- concurrent use of the shared values -------------------------------------------

type concCall struct {
	line string // protocol line (without the property prefix) of the call made alone
	want string // its observation when made alone
	run  func() string
}

// callsFor builds, for one input, the calls a goroutine repeats: Transform with
// two capacities, Span, String, Bytes on both transformers, each with private
// buffers.
func callsFor(s []byte) []concCall {
	hs := common.Hex(s)
	var cs []concCall
	for _, tr := range []struct {
		op string
		t  jid.Transformer
	}{{"e", jid.Escape}, {"u", jid.Unescape}} {
		tr := tr
		for _, cp := range []int{3*len(s) + 3, 7} {
			cp := cp
			cs = append(cs, concCall{
				line: fmt.Sprintf("%sstep %d %s %s", tr.op, cp, hs, common.B(true)),
				run:  func() string { return step(tr.t, cp, s, true).obs() },
			})
		}
		cs = append(cs, concCall{
			line: fmt.Sprintf("%sstr %s", tr.op, hs),
			run: func() string {
				return obsBytes(safe(func() ([]byte, error) { return []byte(tr.t.String(string(s))), nil }))
			},
		}, concCall{
			line: fmt.Sprintf("%sstr %s", tr.op, hs),
			run: func() string {
				return obsBytes(safe(func() ([]byte, error) { return tr.t.Bytes(append([]byte(nil), s...)), nil }))
			},
		}, concCall{
			line: fmt.Sprintf("%sspan %s %s", tr.op, hs, common.B(true)),
			run: func() string {
				out, err := safe(func() ([]byte, error) {
					n, e := tr.t.Span(append([]byte(nil), s...), true)
					return []byte(fmt.Sprintf("%d %s", n, errName(e))), nil
				})
				if err != nil {
					return "PANIC"
				}
				return string(out)
			},
		})
	}
	return cs
}

// concurrent runs one goroutine per input; each first records what its calls
// give when nothing else runs (these are emitted as correspondence lines, so
// they are also compared with the model), then all goroutines repeat their
// calls side by side for `rounds` rounds or until `budget` is used up.  Any
// result that differs from the solo result is a failure of the clause
// "call-independent" (the result depends on something other than the input).
func (c *ctx) concurrent(inputs [][]byte, rounds int, budget time.Duration, class string) {
	r := c.r
	if len(inputs) < 2 {
		inputs = append(inputs, []byte("a b"), []byte(`x\40y`))
	}
	r.Mark("concurrent %d goroutines", len(inputs))
	all := make([][]concCall, len(inputs))
	for i, in := range inputs {
		all[i] = callsFor(in)
		for k := range all[i] {
			all[i][k].want = all[i][k].run()
			r.Line(all[i][k].line, all[i][k].want)
		}
		r.Case("conc "+common.Hex(in), bytes.ContainsAny(in, escSet), class)
	}
	if runtime.GOMAXPROCS(0) < 4 {
		defer runtime.GOMAXPROCS(runtime.GOMAXPROCS(4))
	}
	type bad struct {
		call concCall
		got  string
		in   []byte
	}
	var (
		wg    sync.WaitGroup
		stop  atomic.Bool
		mu    sync.Mutex
		first *bad
	)
	deadline := time.Now().Add(budget)
	start := make(chan struct{})
	for i := range inputs {
		wg.Add(1)
		go func(i int) {
			defer wg.Done()
			<-start
			for n := 0; n < rounds && !stop.Load(); n++ {
				if n%256 == 255 && time.Now().After(deadline) {
					return
				}
				for _, cl := range all[i] {
					if got := cl.run(); got != cl.want {
						mu.Lock()
						if first == nil {
							first = &bad{cl, got, inputs[i]}
						}
						mu.Unlock()
						stop.Store(true)
						return
					}
				}
			}
		}(i)
	}
	close(start)
	wg.Wait()
	if first != nil {
		lines := []string{r.Prop + " " + first.call.line}
		// the other goroutines' inputs belong to the witness: the replay runs them side by side again
		for _, in := range inputs {
			if !bytes.Equal(in, first.in) {
				lines = append(lines, r.Prop+" estr "+common.Hex(in))
			}
		}
		op := strings.Fields(first.call.line)[0]
		r.Fail("call-independent", "concurrent/"+op[:1], lines,
			fmt.Sprintf("%d goroutines use the package-level transformers at the same time, each on its own input and buffers: %q gave %s, alone it gives %s",
				len(inputs), first.call.line, first.got, first.call.want))
	}
}

// concInputs: one string per escapable byte / escape code (different goroutines
// must write different codes for shared scratch state to show).
func concInputs() [][]byte {
	var ins [][]byte
	for _, ch := range []byte(escSet) {
		e := fmt.Sprintf(`\%02x`, ch)
		ins = append(ins, []byte("u"+strings.Repeat(string(ch), 24)+"v"+strings.Repeat(e, 8)))
	}
	return ins
}
