// Package c04 checks that session establishment fails closed (property C04).  It shares
// the negotiation engine and the Lean model of C01 (package c01, Model/Negotiate.lean) and
// adds the fault dimension: failing reads and writes at every index, input ending at every
// item, failing callbacks, and cancellation at every event.
package c04

import (
	"fmt"
	"strings"

	"verifharness/c01"
	"verifharness/common"
)

func feature(ns int, nec, proh, mask uint8, req, restart bool) c01.Beh {
	return c01.Beh{NS: ns, Loc: 1, Nec: nec, Proh: proh, Mask: mask, ListReq: req, Restart: restart, Negotiable: true}
}

// handshakes are instrumented versions of the standard handshakes: STARTTLS, then
// authentication, then a voluntary feature and resource binding; on both sides, with TCP
// and WebSocket framing, c2s and s2s.
func handshakes() []c01.Case {
	tls := feature(1, 0, c01.Secure, c01.Secure, true, true)
	auth := feature(2, c01.Secure, c01.Authn, c01.Authn, true, true)
	vol := feature(4, c01.Authn, 0, 0, false, false)
	bind := feature(3, c01.Authn, c01.Ready, c01.Ready, true, false)
	info := c01.Beh{NS: 5, Loc: 1, Nec: c01.Authn} // informational
	cfg := []c01.Beh{tls, auth, vol, bind, info}
	hdr := c01.Item{Kind: 'H', OK: true}
	adv := func(items ...c01.AdvItem) c01.Item { return c01.Item{Kind: 'A', Adv: items} }
	a := func(ns int, req bool) c01.AdvItem { return c01.AdvItem{NS: ns, Loc: 1, Req: req} }
	sel := func(ns int, iq bool) c01.Item { return c01.Item{Kind: 'E', NS: ns, Loc: 1, IQ: iq, Payload: true} }
	client := []c01.Item{hdr, adv(a(1, true), a(2, true)), hdr, adv(a(2, true)), hdr, adv(a(5, false), a(4, false), a(3, true))}
	server := []c01.Item{hdr, sel(1, false), hdr, sel(2, false), hdr, sel(4, false), sel(3, true)}
	var out []c01.Case
	for _, ws := range []bool{false, true} {
		for _, s2s := range []uint8{0, c01.S2S} {
			out = append(out,
				c01.Case{St0: s2s, WS: ws, Cfg: cfg, Script: client, Fault: "-"},
				c01.Case{St0: s2s | c01.Received, WS: ws, Cfg: cfg, Script: server, Fault: "-"})
		}
	}
	// a pre-secured connection (e.g. implicit TLS), no voluntary feature
	out = append(out,
		c01.Case{St0: c01.Secure, Cfg: []c01.Beh{tls, auth, bind}, Script: []c01.Item{hdr, adv(a(2, true)), hdr, adv(a(3, true))}, Fault: "-"},
		c01.Case{St0: c01.Secure | c01.Received, Cfg: []c01.Beh{tls, auth, bind}, Script: []c01.Item{hdr, sel(2, false), hdr, sel(3, true)}, Fault: "-"})
	return out
}

// Run is the C04 runner.
func Run(r *common.Run) error {
	e := &c01.Emitter{R: r, Prop: "C04"}
	if r.Replay != "" {
		lines, err := common.ReplayLines(r.Replay)
		if err != nil {
			return err
		}
		for _, l := range lines {
			f := strings.Fields(l)
			if len(f) > 0 && f[0] == "C04" {
				f = f[1:]
			}
			if len(f) == 4 && f[0] == "comp" {
				codes := []string{}
				if f[2] != "-" {
					codes = strings.Split(f[2], ",")
				}
				doCompRole(e, f[1] == "8", codes, f[3], "replay")
				continue
			}
			if len(f) > 0 && f[0] == "hs" {
				if err := replayHS(r, f); err != nil {
					return err
				}
				continue
			}
			cs, err := c01.ParseLine(l)
			if err != nil {
				return err
			}
			e.Do(cs, "replay")
		}
		return nil
	}
	for _, cs := range c01.Witnesses() {
		e.Do(cs, "corpus")
	}
	for _, cs := range witnesses() {
		e.Do(cs, "corpus")
	}
	// every fault point of every standard handshake
	for bi, base := range handshakes() {
		clean := e.Do(base, "handshake")
		if c01.Aborted() {
			break
		}
		if clean.Outcome != "done" {
			r.Fail("harness", "handshake-not-clean", []string{"C04 " + base.Line(clean)}, "the fault-free handshake does not complete: "+clean.Obs(base.Cfg))
			continue
		}
		ops := 0
		for _, ev := range clean.Events {
			if ev.Kind == "R" || ev.Kind[0] == 'W' {
				ops++
			}
		}
		for k := 0; k <= ops; k++ {
			for _, f := range []string{fmt.Sprint(k), fmt.Sprint(k, "+")} {
				cs := base
				cs.Fault = f
				e.Do(cs, "fault-io")
			}
		}
		// the peer's stream ends after every item
		for n := 0; n < len(base.Script); n++ {
			cs := base
			cs.Script = base.Script[:n]
			e.Do(cs, "cut")
		}
		// every callback fails
		for i := range base.Cfg {
			for kind := 0; kind < 3; kind++ {
				cs := base
				cs.Cfg = append([]c01.Beh(nil), base.Cfg...)
				switch kind {
				case 0:
					cs.Cfg[i].ListErr = true
				case 1:
					cs.Cfg[i].ParseErr = true
				default:
					cs.Cfg[i].NegErr = true
				}
				e.Do(cs, "fault-callback")
			}
		}
		// The kind of error value is a dimension of every injected failure: a time-out
		// (net.Error) with the context alive, a temporary error, a closed connection,
		// context.DeadlineExceeded / context.Canceled / io.EOF themselves. Whatever the
		// value, a failed step fails the establishment. Quick tier: the time-out kind and one
		// rotating kind per fault point; thorough: all of them.
		for k := 0; k <= ops; k++ {
			for _, ek := range errKindsFor(r, bi+k) {
				cs := base
				cs.ErrKind = ek
				cs.Fault = fmt.Sprint(k)
				e.Do(cs, "fault-io/"+string(ek))
				if k%3 == 0 {
					cs.Fault = fmt.Sprint(k, "+")
					e.Do(cs, "fault-io/"+string(ek))
				}
			}
		}
		for i := range base.Cfg {
			for kind := 0; kind < 3; kind++ {
				for _, ek := range errKindsFor(r, bi+i+kind) {
					cs := base
					cs.ErrKind = ek
					cs.Cfg = append([]c01.Beh(nil), base.Cfg...)
					switch kind {
					case 0:
						cs.Cfg[i].ListErr = true
					case 1:
						cs.Cfg[i].ParseErr = true
					default:
						cs.Cfg[i].NegErr = true
					}
					e.Do(cs, "fault-callback/"+string(ek))
				}
			}
		}
		// The transport is a dimension: the same handshake on a plain io.ReadWriter (no
		// deadlines, nothing for the context watcher to act on). Failing operations, ends of
		// input, failing callbacks and cancellation instants must still fail the establishment;
		// after a cancellation reads and writes go on until the check behind the step.
		{
			raw := base
			raw.Raw = true
			e.Do(raw, "raw/handshake")
			for k := 0; k <= ops; k++ {
				cs := raw
				cs.Fault = fmt.Sprint(k)
				e.Do(cs, "raw/fault-io")
				for _, ek := range errKindsFor(r, bi+k) {
					cs.ErrKind = ek
					e.Do(cs, "raw/fault-io/"+string(ek))
				}
			}
			for n := 0; n < len(base.Script); n++ {
				cs := raw
				cs.Script = base.Script[:n]
				e.Do(cs, "raw/cut")
			}
			for i := range base.Cfg {
				cs := raw
				cs.Cfg = append([]c01.Beh(nil), base.Cfg...)
				cs.Cfg[i].NegErr = true
				e.Do(cs, "raw/fault-callback")
			}
			for _, kind := range []byte{'c', 'p'} {
				for n := 0; n <= len(clean.Events); n++ {
					cs := raw
					cs.Ctx = kind
					cs.Fault = fmt.Sprintf("C%d", n)
					e.Do(cs, "raw/cancel/"+string(kind))
				}
			}
		}
		// Cancellation, with every kind of context whose Done() can fire: WithCancel, a far
		// deadline with an explicit cancel, a timeout nested in a cancelled parent, and a near
		// deadline that expires (the last one costs real time: first handshake only in the quick
		// tier).
		for _, kind := range c01.CtxKinds {
			if kind == 'n' && r.Quick() && bi > 0 {
				continue
			}
			// every operation blocks in turn (the peer is silent, resp. does not read) and the
			// context is done while it is blocked
			for k := 0; k < ops; k++ {
				cs := base
				cs.Ctx = kind
				cs.Fault = fmt.Sprintf("B%d", k)
				if c01.SkipForStalls() {
					continue
				}
				e.Do(cs, "blocked-cancel/"+string(kind))
			}
			// the context is done after every event (0: already done at entry)
			for n := 0; n <= len(clean.Events); n++ {
				cs := base
				cs.Ctx = kind
				cs.Fault = fmt.Sprintf("C%d", n)
				if c01.SkipForStalls() {
					continue
				}
				e.Do(cs, "cancel/"+string(kind))
			}
		}
	}
	// blocked with nobody cancelling: the call legitimately stays blocked (first write, first
	// read of the first handshake; the model predicts the same)
	if hs := handshakes(); len(hs) > 0 {
		for _, k := range []int{0, 1} {
			cs := hs[0]
			cs.Fault = fmt.Sprintf("H%d", k)
			e.Do(cs, "blocked-forever")
		}
	}
	r.Exhaustive = append(r.Exhaustive, "every read/write index (single and permanent failure), every end of input, every failing callback, each failure with the kinds of error value "+errKindsNote(r)+", every cancellation instant and every operation blocking with cancellation while blocked (each with four kinds of context: WithCancel, far deadline + cancel, timeout in a cancelled parent, near deadline expiring), and the same on a plain io.ReadWriter without deadlines (failing operations, ends of input, failing Negotiate, cancellation instants), of 10 instrumented standard handshakes (STARTTLS+auth+voluntary+bind; both roles; TCP/WebSocket; c2s/s2s; pre-secured)")
	if !c01.Aborted() {
		runReal(r)
	}
	if !c01.Aborted() {
		runComponent(e)
	}
	n := r.Pick(3000, 40000)
	for i := 0; i < n; i++ {
		cs := c01.RandomCase(r.Rnd, true)
		if r.Rnd.Chance(1, 6) {
			cs.Fault = fmt.Sprintf("C%d", r.Rnd.Intn(12))
		} else if r.Rnd.Chance(1, 8) {
			cs.Fault = fmt.Sprintf("B%d", r.Rnd.Intn(8))
		}
		if cs.Fault != "-" && r.Rnd.Chance(1, 2) {
			cs.Ctx = []byte{'d', 'p'}[r.Rnd.Intn(2)]
		}
		if r.Rnd.Chance(1, 2) {
			cs.ErrKind = c01.ErrKinds[r.Rnd.Intn(len(c01.ErrKinds))]
		}
		if !strings.Contains(cs.Fault, "B") && !strings.Contains(cs.Fault, "H") && !cs.Block && r.Rnd.Chance(1, 4) {
			cs.Raw = true
		}
		if (strings.HasPrefix(cs.Fault, "C") || strings.HasPrefix(cs.Fault, "B")) && c01.SkipForStalls() {
			continue
		}
		e.Do(cs, "random")
	}
	if n := c01.StallSkipped(); n > 0 {
		r.Notes = append(r.Notes, fmt.Sprintf("stall budget (%d) used up: %d further cancellation/blocking cases skipped", c01.StallBudget, n))
	}
	r.Notes = append(r.Notes, fmt.Sprintf("%d negotiation runs of the real NewSession/ReceiveSession", e.N))
	return nil
}

// errKindsFor: the kinds of error value a fault point is run with besides the plain one: all
// of them in the thorough tier; the time-out kind plus one rotating kind in the quick tier.
func errKindsFor(r *common.Run, i int) []byte {
	if !r.Quick() {
		return c01.ErrKinds
	}
	rot := c01.ErrKinds[1+(i+int(r.Seed%7))%(len(c01.ErrKinds)-1)]
	return []byte{'T', rot}
}

func errKindsNote(r *common.Run) string {
	if r.Quick() {
		return "plain, net.Error time-out with a live context, and one of {temporary net.Error, closed connection, io.ErrUnexpectedEOF, context.DeadlineExceeded, context.Canceled, io.EOF} in rotation"
	}
	return "plain, net.Error time-out with a live context, temporary net.Error, closed connection, io.ErrUnexpectedEOF, context.DeadlineExceeded, context.Canceled, io.EOF"
}

// witnesses are minimal failing inputs of C04 found so far.
func witnesses() []c01.Case {
	hdr := c01.Item{Kind: 'H', OK: true}
	m := c01.Beh{NS: 2, Loc: 1, Negotiable: true, ListReq: true}
	v := c01.Beh{NS: 2, Loc: 1, Negotiable: true}
	return []c01.Case{
		// cancellation lands while no I/O is in flight (inside Negotiate, event 4) and the
		// peer stays silent afterwards
		{Cfg: []c01.Beh{m}, Script: []c01.Item{hdr, {Kind: 'A', Adv: []c01.AdvItem{{NS: 2, Loc: 1, Req: true}}}}, Fault: "C5", Block: true},
		{St0: c01.Received, Cfg: []c01.Beh{v}, Script: []c01.Item{hdr, {Kind: 'E', NS: 2, Loc: 1, Payload: true}}, Fault: "C6", Block: true},
		// cancellation during the last step: nothing reads or writes afterwards
		{Cfg: []c01.Beh{v}, Script: []c01.Item{hdr, {Kind: 'A', Adv: []c01.AdvItem{{NS: 2, Loc: 1}}}}, Fault: "C5"},
		// a stream error where a stream header is expected
		{Script: []c01.Item{{Kind: 'X'}}, Fault: "-"},
		{St0: c01.Received, Script: []c01.Item{{Kind: 'X'}}, Fault: "-"},
	}
}
