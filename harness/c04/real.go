package c04

import (
	"context"
	"crypto/ed25519"
	"crypto/rand"
	"crypto/tls"
	"crypto/x509"
	"crypto/x509/pkix"
	"errors"
	"fmt"
	"io"
	"math/big"
	"net"
	"os"
	"regexp"
	"strings"
	"sync"
	"time"

	"mellium.im/sasl"
	"mellium.im/xmpp"
	"mellium.im/xmpp/component"
	"mellium.im/xmpp/jid"
	"mellium.im/xmpp/s2s"
	"mellium.im/xmpp/websocket"

	"verifharness/c01"
	"verifharness/common"
)

// Handshakes with the library's own features (SASL PLAIN, resource binding, the component
// handshake) against a reactive scripted peer on an in-memory connection with deadlines.
// They support C04 at byte granularity: the peer's stream is cut after every byte, every
// read and every write of the library fails in turn, and the context is cancelled at every
// step boundary; each run must end with an error, without the ready bit, without a panic and
// within the watchdog.  Lines `hs <name> <kind> <n>` are answered by the model with `done`
// (kind `clean`) or `fail` (every fault): that is `C04_fail_closed` read as a prediction.

type exchange struct {
	expect *regexp.Regexp // matched against what the library wrote since the last match (nil: send at once)
	send   string         // `$1` is replaced by the first capture
	tls    bool           // after sending, the peer starts a TLS server handshake on the connection
	tlsc   bool           // after matching (and sending, if send is not empty), the peer starts a TLS client handshake
}

type handshake struct {
	// chunk: the peer's bytes reach the library at most this many per Read (0: whole messages)
	chunk int
	// ctx: kind of the context whose Done() fires where the case cancels (see c01.MakeCtx)
	ctx byte
	// errKind: kind of the error value a failing Read / Write returns (c01.ErrKinds, 0 plain)
	errKind byte
	// inside: 'r' / 'w': the context is cancelled inside the library's Read / Write number
	// insideAt, which itself completes (see duplex.cancelRd); 0: not used
	inside   byte
	insideAt int
	name     string
	// short: only the short spelling of the peer's empty elements (variants of a handshake whose
	// long spelling is enumerated already)
	short bool
	steps []exchange
	run   func(ctx context.Context, c net.Conn) (*xmpp.Session, error)
}

// duplex is the library's end of the connection.
type duplex struct {
	mu       sync.Mutex
	cond     *sync.Cond
	in       []byte // bytes from the peer not yet read
	eof      bool
	out      []byte    // everything the library wrote
	rdl, wdl time.Time // read and write deadline
	reads    int
	writes   int
	failRd   int // index of the Read that fails (-1 none)
	failWr   int
	errKind  byte
	notify   chan struct{}
	// peer side
	chunk   int  // at most this many bytes per Read (0: no limit)
	cursor  int  // bytes of out the peer has read
	stopped bool // the run is over
	budget  int  // bytes the peer may still deliver (-1 unlimited)
	sent    int
	cutHit  bool // the budget ended the peer's stream
	// the failing Read / Write of the case was reached (the number of reads of a TLS layer depends
	// on how the peer's records happen to be coalesced: a run may need fewer than the clean one)
	faultHit bool
	// cancellation *inside* an I/O operation that itself completes: when the Read / Write with
	// this index has its data, the context is cancelled (fire), the harness waits until the
	// library's watcher has moved both deadlines into the past (<= 1 s), the operation returns
	// its data without an error, and the peer is silent from then on (muted: what it writes is
	// dropped). Whatever the library does next on the connection - inside a feature's own step -
	// must find the deadline the watcher installed.
	cancelRd, cancelWr int
	fire               func()
	muted              bool
	fired              bool
	// the I/O operations the library started after that cancellation: direction (0 read, 1
	// write) and the state of the deadline of that direction when it started (0 none, 1 past, 2 future)
	afterOps [][2]int
}

// cancelInside fires the cancellation of the case from inside an I/O operation (d.mu held) and
// waits for the watcher.
func (d *duplex) cancelInside() {
	d.fired = true
	d.muted = true
	fire := d.fire
	d.mu.Unlock()
	if fire != nil {
		fire()
	}
	for end := time.Now().Add(time.Second); time.Now().Before(end); {
		d.mu.Lock()
		ok := d.expired(false) && d.expired(true)
		d.mu.Unlock()
		if ok {
			break
		}
		time.Sleep(time.Millisecond)
	}
	d.mu.Lock()
}

func (d *duplex) noteOp(wr bool) {
	if !d.fired {
		return
	}
	t, dir := d.rdl, 0
	if wr {
		t, dir = d.wdl, 1
	}
	st := 2
	switch {
	case t.IsZero():
		st = 0
	case t.Before(time.Now()):
		st = 1
	}
	d.afterOps = append(d.afterOps, [2]int{dir, st})
}

// peerEnd is the peer's end of the connection (a net.Conn, so a TLS server can run on it).
type peerEnd struct{ d *duplex }

var errPeerDone = errors.New("harness: peer stream ended")

func (p peerEnd) Read(b []byte) (int, error) {
	d := p.d
	d.mu.Lock()
	defer d.mu.Unlock()
	for d.cursor >= len(d.out) && !d.stopped {
		d.cond.Wait()
	}
	if d.cursor >= len(d.out) {
		return 0, io.EOF
	}
	n := copy(b, d.out[d.cursor:])
	d.cursor += n
	return n, nil
}

func (p peerEnd) Write(b []byte) (int, error) {
	d := p.d
	d.mu.Lock()
	defer d.mu.Unlock()
	if d.eof {
		return 0, errPeerDone
	}
	if d.muted {
		// the peer is silent: nothing of this reaches the library
		return len(b), nil
	}
	if d.budget >= 0 && d.sent+len(b) > d.budget {
		k := d.budget - d.sent
		d.in = append(d.in, b[:k]...)
		d.sent = d.budget
		d.eof = true
		d.cutHit = true
		d.cond.Broadcast()
		return k, errPeerDone
	}
	d.in = append(d.in, b...)
	d.sent += len(b)
	d.cond.Broadcast()
	return len(b), nil
}

func (p peerEnd) Close() error                       { return nil }
func (p peerEnd) LocalAddr() net.Addr                { return memAddr{} }
func (p peerEnd) RemoteAddr() net.Addr               { return memAddr{} }
func (p peerEnd) SetDeadline(t time.Time) error      { return nil }
func (p peerEnd) SetReadDeadline(t time.Time) error  { return nil }
func (p peerEnd) SetWriteDeadline(t time.Time) error { return nil }

func newDuplex() *duplex {
	d := &duplex{failRd: -1, failWr: -1, cancelRd: -1, cancelWr: -1, budget: -1, notify: make(chan struct{}, 1)}
	d.cond = sync.NewCond(&d.mu)
	return d
}

type memAddr struct{}

func (memAddr) Network() string { return "mem" }
func (memAddr) String() string  { return "mem" }

var errInjected = errors.New("harness: injected connection fault")

func (d *duplex) expired(wr bool) bool {
	t := d.rdl
	if wr {
		t = d.wdl
	}
	return !t.IsZero() && t.Before(time.Now())
}

func (d *duplex) Read(p []byte) (int, error) {
	d.mu.Lock()
	defer d.mu.Unlock()
	idx := d.reads
	d.reads++
	d.noteOp(false)
	if idx == d.failRd {
		d.faultHit = true
		return 0, c01.InjErr(d.errKind, errInjected)
	}
	for len(d.in) == 0 && !d.eof && !d.expired(false) {
		d.cond.Wait()
	}
	if d.expired(false) {
		return 0, os.ErrDeadlineExceeded
	}
	if len(d.in) == 0 {
		return 0, io.EOF
	}
	if d.chunk > 0 && len(p) > d.chunk {
		p = p[:d.chunk]
	}
	n := copy(p, d.in)
	d.in = d.in[n:]
	if idx == d.cancelRd {
		d.cancelInside()
	}
	return n, nil
}

func (d *duplex) Write(p []byte) (int, error) {
	d.mu.Lock()
	defer d.mu.Unlock()
	idx := d.writes
	d.writes++
	d.noteOp(true)
	if idx == d.failWr {
		d.faultHit = true
		return 0, c01.InjErr(d.errKind, errInjected)
	}
	if d.expired(true) {
		return 0, os.ErrDeadlineExceeded
	}
	d.out = append(d.out, p...)
	d.cond.Broadcast()
	if idx == d.cancelWr {
		d.cancelInside()
	}
	return len(p), nil
}

func (d *duplex) Close() error         { return nil }
func (d *duplex) LocalAddr() net.Addr  { return memAddr{} }
func (d *duplex) RemoteAddr() net.Addr { return memAddr{} }
func (d *duplex) setDl(t time.Time, rd, wr bool) error {
	d.mu.Lock()
	if rd {
		d.rdl = t
	}
	if wr {
		d.wdl = t
	}
	d.mu.Unlock()
	d.cond.Broadcast()
	return nil
}
func (d *duplex) SetDeadline(t time.Time) error      { return d.setDl(t, true, true) }
func (d *duplex) SetReadDeadline(t time.Time) error  { return d.setDl(t, true, false) }
func (d *duplex) SetWriteDeadline(t time.Time) error { return d.setDl(t, false, true) }

func (d *duplex) end() {
	d.mu.Lock()
	d.eof = true
	d.stopped = true
	d.mu.Unlock()
	d.cond.Broadcast()
}

type hsResult struct {
	outcome  string // done | fail | PANIC | STALL
	ready    bool
	err      string
	sent     int // bytes the peer delivered
	reads    int
	writes   int
	cutHit   bool
	faultHit bool
	// inside-cancellation cases: the cancellation point was reached; the operations started after it
	fired    bool
	afterOps [][2]int
}

// play runs one handshake. budget: bytes the peer may send before its stream ends (-1:
// unlimited); failRd/failWr: index of the failing Read/Write (-1: none); cancelAt: the
// context is cancelled right after the peer has sent that many steps and the peer then stays
// silent (-1: never); the step's own message is not sent.
func play(h handshake, budget, failRd, failWr, cancelAt int) hsResult {
	d := newDuplex()
	d.failRd, d.failWr = failRd, failWr
	d.chunk = h.chunk
	d.errKind = h.errKind
	ctx, cancel, release := c01.MakeCtx(h.ctx)
	defer release()
	d.budget = budget
	d.fire = cancel
	switch h.inside {
	case 'r':
		d.cancelRd = h.insideAt
	case 'w':
		d.cancelWr = h.insideAt
	}
	var peerWG sync.WaitGroup
	peerWG.Add(1)
	go func() {
		defer peerWG.Done()
		var rw io.ReadWriter = peerEnd{d}
		acc := ""
		chunk := make([]byte, 4096)
		for i, st := range h.steps {
			capture := ""
			if st.expect != nil {
				for {
					if m := st.expect.FindStringSubmatchIndex(acc); m != nil {
						if len(m) >= 4 && m[2] >= 0 {
							capture = acc[m[2]:m[3]]
						}
						acc = acc[m[1]:]
						break
					}
					n, err := rw.Read(chunk)
					acc += string(chunk[:n])
					if err != nil {
						return
					}
				}
			}
			if cancelAt == i {
				// the peer stays silent from here on and the caller gives up
				cancel()
				return
			}
			msg := regexp.MustCompile(`\$1`).ReplaceAllLiteralString(st.send, capture)
			if msg != "" || !st.tlsc {
				if _, err := rw.Write([]byte(msg)); err != nil {
					return
				}
			}
			if st.tls || st.tlsc {
				var tc *tls.Conn
				if st.tls {
					tc = tls.Server(peerEnd{d}, serverTLS())
				} else {
					tc = tls.Client(peerEnd{d}, clientTLS())
				}
				if err := tc.Handshake(); err != nil {
					d.end()
					return
				}
				rw = tc
				acc = ""
			}
		}
		if budget >= 0 {
			d.end()
		}
	}()
	type ret struct {
		s     *xmpp.Session
		err   error
		panic string
	}
	ch := make(chan ret, 1)
	go func() {
		var out ret
		defer func() {
			if p := recover(); p != nil {
				out.panic = fmt.Sprint(p)
			}
			ch <- out
		}()
		out.s, out.err = h.run(ctx, d)
	}()
	res := hsResult{}
	select {
	case out := <-ch:
		switch {
		case out.panic != "":
			res.outcome, res.err = "PANIC", out.panic
		case out.err != nil:
			res.outcome, res.err = "fail", out.err.Error()
		default:
			res.outcome = "done"
		}
		if out.s != nil {
			res.ready = out.s.State()&xmpp.Ready != 0
		}
	case <-time.After(3 * time.Second):
		res.outcome = "STALL"
		c01.NoteStall()
	}
	d.end()
	peerWG.Wait()
	d.mu.Lock()
	res.sent, res.reads, res.writes, res.cutHit, res.faultHit = d.sent, d.reads, d.writes, d.cutHit, d.faultHit
	res.fired, res.afterOps = d.fired, append([][2]int(nil), d.afterOps...)
	d.mu.Unlock()
	return res
}

var (
	tlsOnce   sync.Once
	tlsServer *tls.Config
	tlsClient *tls.Config
)

// serverTLS returns the TLS configuration of the in-process server (a certificate for
// example.net generated once per run); clientTLS trusts exactly that certificate.
func serverTLS() *tls.Config { tlsSetup(); return tlsServer }
func clientTLS() *tls.Config { tlsSetup(); return tlsClient.Clone() }

func tlsSetup() {
	tlsOnce.Do(func() {
		// Ed25519: fixed-size keys and signatures keep the length of the handshake stable
		pub, key, err := ed25519.GenerateKey(rand.Reader)
		if err != nil {
			panic(err)
		}
		tmpl := &x509.Certificate{
			SerialNumber: big.NewInt(1), Subject: pkix.Name{CommonName: "example.net"},
			DNSNames: []string{"example.net"}, NotBefore: time.Now().Add(-time.Hour), NotAfter: time.Now().Add(24 * time.Hour),
			KeyUsage: x509.KeyUsageDigitalSignature | x509.KeyUsageCertSign, ExtKeyUsage: []x509.ExtKeyUsage{x509.ExtKeyUsageServerAuth},
			IsCA: true, BasicConstraintsValid: true,
		}
		der, err := x509.CreateCertificate(rand.Reader, tmpl, tmpl, pub, key)
		if err != nil {
			panic(err)
		}
		cert, _ := x509.ParseCertificate(der)
		pool := x509.NewCertPool()
		pool.AddCert(cert)
		tlsServer = &tls.Config{Certificates: []tls.Certificate{{Certificate: [][]byte{der}, PrivateKey: key}}, MinVersion: tls.VersionTLS12, SessionTicketsDisabled: true}
		tlsClient = &tls.Config{ServerName: "example.net", RootCAs: pool, MinVersion: tls.VersionTLS12}
	})
}

const (
	nsStreams = "http://etherx.jabber.org/streams"
	nsSASL    = "urn:ietf:params:xml:ns:xmpp-sasl"
	nsBind    = "urn:ietf:params:xml:ns:xmpp-bind"
)

var reEmpty = regexp.MustCompile(`<([A-Za-z][\w:.-]*)((?:\s[^<>]*?)?)/>`)

// longSpelling rewrites every empty element `<x …/>` the peer sends as `<x …></x>`.
func longSpelling(h handshake) handshake {
	out := h
	out.name = h.name + "+l"
	out.steps = nil
	for _, st := range h.steps {
		st.send = reEmpty.ReplaceAllString(st.send, "<$1$2></$1>")
		out.steps = append(out.steps, st)
	}
	return out
}

// allHandshakes: every handshake with both spellings of the empty elements the peer sends.
func allHandshakes() []handshake {
	var out []handshake
	for _, h := range realHandshakes() {
		out = append(out, h, longSpelling(h))
	}
	for _, h := range realHandshakesE() {
		out = append(out, h)
		if !h.short {
			out = append(out, longSpelling(h))
		}
	}
	return out
}

// realHandshakesE (round E, review finding C04-2): the receiving half of the real STARTTLS feature
// (the peer is a TLS client), the WebSocket negotiator on the receiving side, server-to-server
// sessions with s2s.Bidi on both sides, and STARTTLS handshakes of both roles with TeeIn/TeeOut
// configured (the negotiator wraps the connection in a teeConn before and after the TLS layer).
func realHandshakesE() []handshake {
	me := jid.MustParse("me@example.net")
	srv := jid.MustParse("example.net")
	other := jid.MustParse("example.org")
	hdrS := func(id string) string {
		return fmt.Sprintf(`<?xml version='1.0'?><stream:stream xmlns='jabber:client' xmlns:stream='%s' version='1.0' id='%s' from='example.net' to='me@example.net'>`, nsStreams, id)
	}
	hdrC := fmt.Sprintf(`<stream:stream xmlns='jabber:client' xmlns:stream='%s' version='1.0' to='example.net'>`, nsStreams)
	hdrS2Sout := func(id string) string {
		return fmt.Sprintf(`<stream:stream xmlns='jabber:server' xmlns:stream='%s' version='1.0' id='%s' from='example.org' to='example.net'>`, nsStreams, id)
	}
	wsOpenC := `<open xmlns='urn:ietf:params:xml:ns:xmpp-framing' version='1.0' to='example.net'/>`
	mech := fmt.Sprintf(`<mechanisms xmlns='%s'><mechanism>PLAIN</mechanism></mechanisms>`, nsSASL)
	bindF := fmt.Sprintf(`<bind xmlns='%s'/>`, nsBind)
	bindRes := fmt.Sprintf(`<iq xmlns='jabber:client' type='result' id='$1'><bind xmlns='%s'><jid>me@example.net/r</jid></bind></iq>`, nsBind)
	starttls := `<starttls xmlns='urn:ietf:params:xml:ns:xmpp-tls'><required/></starttls>`
	auth := fmt.Sprintf(`<auth xmlns='%s' mechanism='PLAIN'>AG1lAHB3</auth>`, nsSASL)
	bindIQ := fmt.Sprintf(`<iq xmlns='jabber:client' type='set' id='b1'><bind xmlns='%s'/></iq>`, nsBind)
	reStream := regexp.MustCompile(`<stream:stream[^>]*>`)
	reAuth := regexp.MustCompile(`</auth>`)
	reIQ := regexp.MustCompile(`<iq [^>]*id=["']([^"']+)["'][^>]*>.*</iq>`)
	reFeat := regexp.MustCompile(`</(stream:)?features>|<(stream:)?features[^>]*/>`)
	reSucc := regexp.MustCompile(`<success[^>]*>`)
	cfg := func(tee bool, fs []xmpp.StreamFeature) func(*xmpp.Session, *xmpp.StreamConfig) xmpp.StreamConfig {
		return func(*xmpp.Session, *xmpp.StreamConfig) xmpp.StreamConfig {
			c := xmpp.StreamConfig{Features: fs}
			if tee {
				c.TeeIn, c.TeeOut = io.Discard, io.Discard
			}
			return c
		}
	}
	serverFeatures := func(withTLS bool) []xmpp.StreamFeature {
		fs := []xmpp.StreamFeature{
			xmpp.SASLServer(func(*sasl.Negotiator) bool { return true }, sasl.Plain),
			xmpp.BindCustom(func(j jid.JID, res string) (jid.JID, error) { return jid.MustParse("me@example.net/r"), nil }),
		}
		if withTLS {
			fs = append([]xmpp.StreamFeature{xmpp.StartTLS(serverTLS())}, fs...)
		}
		return fs
	}
	recvTLSSteps := []exchange{
		{expect: nil, send: `<?xml version='1.0'?>` + hdrC},
		{expect: reFeat, send: `<starttls xmlns='urn:ietf:params:xml:ns:xmpp-tls'/>`},
		{expect: regexp.MustCompile(`<proceed[^>]*>`), send: ``, tlsc: true},
		{expect: nil, send: hdrC},
		{expect: reFeat, send: auth},
		{expect: reSucc, send: hdrC},
		{expect: reFeat, send: bindIQ},
		{expect: regexp.MustCompile(`</iq>`), send: ``},
	}
	c2sTLSSteps := []exchange{
		{expect: reStream, send: hdrS("s0") + `<stream:features>` + starttls + mech + `</stream:features>`},
		{expect: regexp.MustCompile(`<starttls[^>]*/>`), send: `<proceed xmlns='urn:ietf:params:xml:ns:xmpp-tls'/>`, tls: true},
		{expect: reStream, send: hdrS("s1") + `<stream:features>` + mech + `</stream:features>`},
		{expect: reAuth, send: fmt.Sprintf(`<success xmlns='%s'/>`, nsSASL)},
		{expect: reStream, send: hdrS("s2") + `<stream:features>` + bindF + `</stream:features>`},
		{expect: reIQ, send: bindRes},
	}
	recvTLS := func(tee bool) func(ctx context.Context, c net.Conn) (*xmpp.Session, error) {
		return func(ctx context.Context, c net.Conn) (*xmpp.Session, error) {
			return xmpp.ReceiveSession(ctx, c, 0, xmpp.NewNegotiator(cfg(tee, serverFeatures(true))))
		}
	}
	bidi := `<bidi xmlns='urn:xmpp:features:bidi'/>`
	return []handshake{
		// short spelling only: the receiving STARTTLS step starts the TLS layer as soon as it has the
		// start tag of <starttls>; the bytes of a separate end tag </starttls> that arrive later are
		// taken for a TLS record ("first record does not look like a TLS handshake": fails closed;
		// the other elements' long spellings are covered by recv-sasl-bind+l)
		{name: "recv-starttls-sasl-bind", short: true, steps: recvTLSSteps, run: recvTLS(false)},
		{name: "recv-starttls-sasl-bind+tee", short: true, steps: recvTLSSteps, run: recvTLS(true)},
		{
			name: "c2s-starttls-sasl-bind+tee", short: true, steps: c2sTLSSteps,
			run: func(ctx context.Context, c net.Conn) (*xmpp.Session, error) {
				fs := []xmpp.StreamFeature{xmpp.StartTLS(clientTLS()), xmpp.SASL("", "pw", sasl.Plain), xmpp.BindResource()}
				return xmpp.NewSession(ctx, srv, me, c, 0, xmpp.NewNegotiator(cfg(true, fs)))
			},
		},
		{
			// the receiving entity adds an element the client does not know in the namespace of a
			// feature it does know (SASL, bind): nothing may panic, the handshake completes
			name: "c2s-sasl-bind+sib", short: true,
			steps: []exchange{
				{expect: reStream, send: hdrS("s1") + `<stream:features>` + mech + fmt.Sprintf(`<hint xmlns='%s'/>`, nsSASL) + `</stream:features>`},
				{expect: reAuth, send: fmt.Sprintf(`<success xmlns='%s'/>`, nsSASL)},
				{expect: reStream, send: hdrS("s2") + `<stream:features>` + bindF + fmt.Sprintf(`<hint xmlns='%s'/>`, nsBind) + `</stream:features>`},
				{expect: reIQ, send: bindRes},
			},
			run: func(ctx context.Context, c net.Conn) (*xmpp.Session, error) {
				fs := []xmpp.StreamFeature{xmpp.SASL("", "pw", sasl.Plain), xmpp.BindResource()}
				return xmpp.NewSession(ctx, srv, me, c, xmpp.Secure, xmpp.NewNegotiator(cfg(false, fs)))
			},
		},
		{
			name: "recv-ws-sasl-bind",
			steps: []exchange{
				{expect: nil, send: wsOpenC},
				{expect: reFeat, send: auth},
				{expect: reSucc, send: wsOpenC},
				{expect: reFeat, send: bindIQ},
				{expect: regexp.MustCompile(`</iq>`), send: ``},
			},
			run: func(ctx context.Context, c net.Conn) (*xmpp.Session, error) {
				return xmpp.ReceiveSession(ctx, c, xmpp.Secure, websocket.Negotiator(cfg(false, serverFeatures(false))))
			},
		},
		{
			// server-to-server, initiating side: voluntary bidi, then SASL; the list after the
			// restart is empty
			name: "s2s-bidi-sasl",
			steps: []exchange{
				{expect: reStream, send: `<?xml version='1.0'?>` + strings.Replace(hdrS2Sout("t1"), "from='example.org' to='example.net'", "from='example.net' to='example.org'", 1) + `<stream:features>` + bidi + mech + `</stream:features>`},
				{expect: reAuth, send: fmt.Sprintf(`<success xmlns='%s'/>`, nsSASL)},
				{expect: reStream, send: strings.Replace(hdrS2Sout("t2"), "from='example.org' to='example.net'", "from='example.net' to='example.org'", 1) + `<stream:features/>`},
			},
			run: func(ctx context.Context, c net.Conn) (*xmpp.Session, error) {
				fs := []xmpp.StreamFeature{s2s.Bidi(), xmpp.SASL("", "pw", sasl.Plain)}
				return xmpp.NewSession(ctx, srv, other, c, xmpp.S2S|xmpp.Secure, xmpp.NewNegotiator(cfg(false, fs)))
			},
		},
		// (no receiving s2s handshake: with the library's own features a receiving S2S session cannot
		// complete - after SASL the list is empty (Bidi and SASL are prohibited by Authn) and the
		// receiver waits for a selection; a selection of bidi is refused because the feature is
		// looked up by the namespace of its advertisement; a header with `from` is refused because
		// ReceiveSession starts without a remote address. All three fail closed.)
	}
}

func realHandshakes() []handshake {
	me := jid.MustParse("me@example.net")
	srv := jid.MustParse("example.net")
	hdrS := func(id string) string {
		return fmt.Sprintf(`<?xml version='1.0'?><stream:stream xmlns='jabber:client' xmlns:stream='%s' version='1.0' id='%s' from='example.net' to='me@example.net'>`, nsStreams, id)
	}
	wsOpen := func(id string) string {
		return fmt.Sprintf(`<open xmlns='urn:ietf:params:xml:ns:xmpp-framing' version='1.0' id='%s' from='example.net' to='me@example.net'/>`, id)
	}
	mech := fmt.Sprintf(`<mechanisms xmlns='%s'><mechanism>PLAIN</mechanism></mechanisms>`, nsSASL)
	bindF := fmt.Sprintf(`<bind xmlns='%s'/>`, nsBind)
	bindRes := fmt.Sprintf(`<iq xmlns='jabber:client' type='result' id='$1'><bind xmlns='%s'><jid>me@example.net/r</jid></bind></iq>`, nsBind)
	reStream := regexp.MustCompile(`<stream:stream[^>]*>`)
	reOpen := regexp.MustCompile(`<open[^>]*/>`)
	reAuth := regexp.MustCompile(`</auth>`)
	reIQ := regexp.MustCompile(`<iq [^>]*id=["']([^"']+)["'][^>]*>.*</iq>`)
	clientFeatures := func() []xmpp.StreamFeature {
		return []xmpp.StreamFeature{xmpp.SASL("", "pw", sasl.Plain), xmpp.BindResource()}
	}
	cfg := func(fs []xmpp.StreamFeature) func(*xmpp.Session, *xmpp.StreamConfig) xmpp.StreamConfig {
		return func(*xmpp.Session, *xmpp.StreamConfig) xmpp.StreamConfig { return xmpp.StreamConfig{Features: fs} }
	}
	starttls := `<starttls xmlns='urn:ietf:params:xml:ns:xmpp-tls'><required/></starttls>`
	return []handshake{
		{
			name: "c2s-starttls-sasl-bind",
			steps: []exchange{
				{expect: reStream, send: hdrS("s0") + `<stream:features>` + starttls + mech + `</stream:features>`},
				{expect: regexp.MustCompile(`<starttls[^>]*/>`), send: `<proceed xmlns='urn:ietf:params:xml:ns:xmpp-tls'/>`, tls: true},
				{expect: reStream, send: hdrS("s1") + `<stream:features>` + mech + `</stream:features>`},
				{expect: reAuth, send: fmt.Sprintf(`<success xmlns='%s'/>`, nsSASL)},
				{expect: reStream, send: hdrS("s2") + `<stream:features>` + bindF + `</stream:features>`},
				{expect: reIQ, send: bindRes},
			},
			run: func(ctx context.Context, c net.Conn) (*xmpp.Session, error) {
				fs := append([]xmpp.StreamFeature{xmpp.StartTLS(clientTLS())}, clientFeatures()...)
				return xmpp.NewSession(ctx, srv, me, c, 0, xmpp.NewNegotiator(cfg(fs)))
			},
		},
		{
			name: "c2s-sasl-bind",
			steps: []exchange{
				{expect: reStream, send: hdrS("s1") + `<stream:features>` + mech + `</stream:features>`},
				{expect: reAuth, send: fmt.Sprintf(`<success xmlns='%s'/>`, nsSASL)},
				{expect: reStream, send: hdrS("s2") + `<stream:features>` + bindF + `</stream:features>`},
				{expect: reIQ, send: bindRes},
			},
			run: func(ctx context.Context, c net.Conn) (*xmpp.Session, error) {
				return xmpp.NewSession(ctx, srv, me, c, xmpp.Secure, xmpp.NewNegotiator(cfg(clientFeatures())))
			},
		},
		{
			name: "ws-sasl-bind",
			steps: []exchange{
				{expect: reOpen, send: wsOpen("s1") + fmt.Sprintf(`<stream:features xmlns:stream='%s'>`, nsStreams) + mech + `</stream:features>`},
				{expect: reAuth, send: fmt.Sprintf(`<success xmlns='%s'/>`, nsSASL)},
				{expect: reOpen, send: wsOpen("s2") + fmt.Sprintf(`<stream:features xmlns:stream='%s'>`, nsStreams) + bindF + `</stream:features>`},
				{expect: reIQ, send: bindRes},
			},
			run: func(ctx context.Context, c net.Conn) (*xmpp.Session, error) {
				return xmpp.NewSession(ctx, srv, me, c, xmpp.Secure, websocket.Negotiator(cfg(clientFeatures())))
			},
		},
		{
			name: "recv-sasl-bind",
			steps: []exchange{
				{expect: nil, send: fmt.Sprintf(`<?xml version='1.0'?><stream:stream xmlns='jabber:client' xmlns:stream='%s' version='1.0' to='example.net'>`, nsStreams)},
				{expect: regexp.MustCompile(`</stream:features>`), send: fmt.Sprintf(`<auth xmlns='%s' mechanism='PLAIN'>AG1lAHB3</auth>`, nsSASL)},
				{expect: regexp.MustCompile(`<success[^>]*>`), send: fmt.Sprintf(`<stream:stream xmlns='jabber:client' xmlns:stream='%s' version='1.0' to='example.net'>`, nsStreams)},
				{expect: regexp.MustCompile(`</stream:features>`), send: fmt.Sprintf(`<iq xmlns='jabber:client' type='set' id='b1'><bind xmlns='%s'/></iq>`, nsBind)},
				{expect: regexp.MustCompile(`</iq>`), send: ``},
			},
			run: func(ctx context.Context, c net.Conn) (*xmpp.Session, error) {
				fs := []xmpp.StreamFeature{
					xmpp.SASLServer(func(*sasl.Negotiator) bool { return true }, sasl.Plain),
					xmpp.BindCustom(func(j jid.JID, res string) (jid.JID, error) { return jid.MustParse("me@example.net/r"), nil }),
				}
				return xmpp.ReceiveSession(ctx, c, xmpp.Secure, xmpp.NewNegotiator(cfg(fs)))
			},
		},
		{
			name: "component",
			steps: []exchange{
				{expect: reStream, send: fmt.Sprintf(`<?xml version='1.0'?><stream:stream xmlns='jabber:component:accept' xmlns:stream='%s' from='comp.example.net' id='abc'>`, nsStreams)},
				{expect: regexp.MustCompile(`</handshake>`), send: `<handshake/>`},
			},
			run: func(ctx context.Context, c net.Conn) (*xmpp.Session, error) {
				return component.NewSession(ctx, jid.MustParse("comp.example.net"), []byte("secret"), c)
			},
		},
	}
}

func emitHS(r *common.Run, h handshake, kind string, n int, res hsResult) {
	line := fmt.Sprintf("hs %s %s %d", h.name, kind, n)
	// the line compares "returned nil" against "did not"; a stall or a panic is
	// reported by the oracle below
	obs := "fail"
	if res.outcome == "done" {
		obs = "done"
	}
	r.Line(line, obs)
	r.Case(line, true, "real/"+h.name+"/"+kind+"/"+res.outcome)
	lines := []string{"C04 " + line}
	switch {
	case res.outcome == "PANIC":
		r.Fail("panic", "real:"+h.name+":"+kind, lines, "negotiation panicked: "+res.err)
	case res.outcome == "STALL":
		r.Fail("stall", "real:"+h.name+":"+kind, lines, "session establishment did not return")
	case isClean(kind) && res.outcome != "done":
		r.Fail("harness", "real-handshake-not-clean:"+h.name, lines, "the fault-free handshake fails: "+res.err)
	case !isClean(kind) && res.outcome == "done":
		r.Fail("fail-closed", "real:"+h.name+":"+kind, lines, fmt.Sprintf("fault %s %d: session establishment returned a nil error", kind, n))
	case !isClean(kind) && res.ready && res.fired && len(res.afterOps) == 0:
		// the cancellation arrived inside the very last I/O operation of the handshake: every
		// step had succeeded, the last feature's own mask supplied the ready bit (the exception
		// of C04_fail_not_ready) and negotiateSession's context check turned the result into an
		// error. Not a violation.
	case !isClean(kind) && res.ready:
		r.Fail("fail-closed", "real-ready-on-error:"+h.name+":"+kind, lines, "session establishment failed ("+res.err+") but the ready bit is set")
	}
}

// countConn is the library's end of a real net.Pipe: it counts the writes and lets the harness
// act when the k-th one starts.
type countConn struct {
	net.Conn
	mu      sync.Mutex
	writes  int
	onWrite func(idx int)
}

func (c *countConn) Write(p []byte) (int, error) {
	c.mu.Lock()
	idx := c.writes
	c.writes++
	c.mu.Unlock()
	if c.onWrite != nil {
		c.onWrite(idx)
	}
	return c.Conn.Write(p)
}

// playPipe runs a handshake over a real net.Pipe (unbuffered, with deadlines). blockWrite: the
// peer stops reading for good when that write of the library starts, and the context is
// cancelled at that instant, so the write blocks until the write deadline is moved (-1: never);
// silentAt: the peer stays silent instead of sending that step and the context is cancelled, so
// the library blocks in a read (-1: never).
func playPipe(h handshake, blockWrite, silentAt int) hsResult {
	c1, c2 := net.Pipe()
	defer c1.Close()
	defer c2.Close()
	ctx, cancel, release := c01.MakeCtx(h.ctx)
	defer release()
	peerDone := make(chan struct{})
	lib := &countConn{Conn: c1}
	lib.onWrite = func(idx int) {
		if idx == blockWrite {
			/* #nosec */
			c2.SetReadDeadline(time.Unix(1, 0)) // the peer gives up reading …
			<-peerDone                          // … for good
			cancel()
		}
	}
	go func() {
		defer close(peerDone)
		var rw io.ReadWriter = c2
		acc := ""
		chunk := make([]byte, 4096)
		for i, st := range h.steps {
			capture := ""
			if st.expect != nil {
				for {
					if m := st.expect.FindStringSubmatchIndex(acc); m != nil {
						if len(m) >= 4 && m[2] >= 0 {
							capture = acc[m[2]:m[3]]
						}
						acc = acc[m[1]:]
						break
					}
					n, err := rw.Read(chunk)
					acc += string(chunk[:n])
					if err != nil {
						return
					}
				}
			}
			if silentAt == i {
				cancel()
				return
			}
			msg := regexp.MustCompile(`\$1`).ReplaceAllLiteralString(st.send, capture)
			if msg != "" || !st.tlsc {
				if _, err := rw.Write([]byte(msg)); err != nil {
					return
				}
			}
			if st.tls || st.tlsc {
				var tc *tls.Conn
				if st.tls {
					tc = tls.Server(c2, serverTLS())
				} else {
					tc = tls.Client(c2, clientTLS())
				}
				if err := tc.Handshake(); err != nil {
					return
				}
				rw = tc
				acc = ""
			}
		}
		// keep reading so that late writes of the library do not block
		for {
			if _, err := rw.Read(chunk); err != nil {
				return
			}
		}
	}()
	type ret struct {
		s     *xmpp.Session
		err   error
		panic string
	}
	ch := make(chan ret, 1)
	go func() {
		var out ret
		defer func() {
			if p := recover(); p != nil {
				out.panic = fmt.Sprint(p)
			}
			ch <- out
		}()
		out.s, out.err = h.run(ctx, lib)
	}()
	res := hsResult{}
	select {
	case out := <-ch:
		switch {
		case out.panic != "":
			res.outcome, res.err = "PANIC", out.panic
		case out.err != nil:
			res.outcome, res.err = "fail", out.err.Error()
		default:
			res.outcome = "done"
		}
		if out.s != nil {
			res.ready = out.s.State()&xmpp.Ready != 0
		}
	case <-time.After(3 * time.Second):
		res.outcome = "STALL"
		c01.NoteStall()
	}
	c1.Close()
	c2.Close()
	<-peerDone
	lib.mu.Lock()
	res.writes = lib.writes
	lib.mu.Unlock()
	return res
}

func isClean(kind string) bool { return kind == "clean" || kind == "pclean" || kind == "cleanb" }

// playKind runs handshake h under the fault (kind, n); a suffix `.d`, `.p`, `.n` selects the kind
// of context whose Done() fires (far deadline + cancel, cancelled parent, near deadline).
func playKind(h handshake, kind string, n int) hsResult {
	if i := strings.Index(kind, "."); i >= 0 {
		// lower case: kind of context; upper case: kind of the injected error value
		for _, ch := range []byte(kind[i+1:]) {
			if ch >= 'A' && ch <= 'Z' {
				h.errKind = ch
			} else {
				h.ctx = ch
			}
		}
		kind = kind[:i]
	}
	switch kind {
	case "cut":
		return play(h, n, -1, -1, -1)
	case "rd":
		return play(h, -1, n, -1, -1)
	case "wr":
		return play(h, -1, -1, n, -1)
	case "cancel":
		return play(h, -1, -1, -1, n)
	case "crd", "cwr":
		h.inside, h.insideAt = kind[1], n
		return play(h, -1, -1, -1, -1)
	case "cleanb":
		h.chunk = 1
		return play(h, -1, -1, -1, -1)
	case "rdb":
		h.chunk = 1
		return play(h, -1, n, -1, -1)
	case "pclean":
		return playPipe(h, -1, -1)
	case "pwr":
		return playPipe(h, n, -1)
	case "prd":
		return playPipe(h, -1, n)
	}
	return play(h, -1, -1, -1, -1)
}

// replayHS re-runs one `hs <name> <kind> <n>` line.
func replayHS(r *common.Run, f []string) error {
	if len(f) != 4 {
		return fmt.Errorf("bad hs line %v", f)
	}
	n := 0
	if _, err := fmt.Sscanf(f[3], "%d", &n); err != nil {
		return err
	}
	for _, h := range allHandshakes() {
		if h.name == f[1] {
			res := playKind(h, f[2], n)
			if f[2] == "cut" && !res.cutHit {
				return nil
			}
			if k := strings.SplitN(f[2], ".", 2)[0]; (k == "rd" || k == "wr" || k == "rdb") && !res.faultHit && res.outcome == "done" {
				// the failing operation was never reached and the handshake completed: not a fault case
				return nil
			}
			emitHS(r, h, f[2], n, res)
			return nil
		}
	}
	return fmt.Errorf("unknown handshake %q", f[1])
}

// runReal enumerates the fault points of the real handshakes.
func runReal(r *common.Run) {
	stride := r.Pick(7, 1)
	for _, h := range allHandshakes() {
		h := h
		emit := func(kind string, n int, res hsResult) {
			if k := strings.SplitN(kind, ".", 2)[0]; (k == "rd" || k == "wr" || k == "rdb") && !res.faultHit && res.outcome == "done" {
				// the failing operation was never reached (fewer, larger reads than in the clean
				// run) and the handshake completed: not a fault case
				return
			}
			emitHS(r, h, kind, n, res)
		}
		clean := play(h, -1, -1, -1, -1)
		emit("clean", 0, clean)
		if clean.outcome != "done" {
			continue
		}
		off := int(r.Seed) % stride
		for n := 0; n < clean.sent; n++ {
			if (n+off)%stride != 0 && n > 3 && n < clean.sent-3 {
				continue
			}
			if res := play(h, n, -1, -1, -1); res.cutHit {
				emit("cut", n, res)
			}
		}
		for k := 0; k < clean.reads; k++ {
			emit("rd", k, play(h, -1, k, -1, -1))
			for _, ek := range errKindsFor(r, k) {
				hk := h
				hk.errKind = ek
				emit("rd."+string(ek), k, play(hk, -1, k, -1, -1))
			}
		}
		for k := 0; k < clean.writes; k++ {
			emit("wr", k, play(h, -1, -1, k, -1))
			for _, ek := range errKindsFor(r, k) {
				hk := h
				hk.errKind = ek
				emit("wr."+string(ek), k, play(hk, -1, -1, k, -1))
			}
		}
		// a peer whose output arrives byte by byte: every read index is a byte position, so a
		// failing read hits every position inside every element
		hb := h
		hb.chunk = 1
		cb := play(hb, -1, -1, -1, -1)
		emit("cleanb", 0, cb)
		if cb.outcome == "done" {
			for k := 0; k < cb.reads; k++ {
				if (k+off)%stride != 0 && k > 3 && k < cb.reads-16 {
					continue
				}
				emit("rdb", k, play(hb, -1, k, -1, -1))
			}
		}
		for j := 0; j < len(h.steps); j++ {
			if h.steps[j].send == "" {
				continue
			}
			if c01.SkipForStalls() {
				continue
			}
			emit("cancel", j, play(h, -1, -1, -1, j))
			for _, k := range []byte{'d', 'p', 'n'} {
				if c01.SkipForStalls() {
					continue
				}
				hk := h
				hk.ctx = k
				emit("cancel."+string(k), j, play(hk, -1, -1, -1, j))
			}
		}
		// cancellation inside every Read / Write that itself completes; the peer is silent
		// afterwards: the next operation of the library - wherever it is, also inside a
		// feature's own step - must find the watcher's deadline
		for _, dir := range []string{"crd", "cwr"} {
			cnt := clean.reads
			if dir == "cwr" {
				cnt = clean.writes
			}
			for k := 0; k < cnt; k++ {
				for _, ck := range []string{"", ".d", ".p"} {
					if c01.SkipForStalls() {
						continue
					}
					if ck != "" && r.Quick() && (k+int(r.Seed))%3 != 0 {
						continue
					}
					if res := playKind(h, dir+ck, k); res.fired {
						emit(dir+ck, k, res)
					}
				}
			}
		}
		// the same handshake over a real net.Pipe: cancellation while blocked in each write
		// (the peer stops reading) and while blocked in a read before each peer step
		pc := playPipe(h, -1, -1)
		emit("pclean", 0, pc)
		if pc.outcome != "done" {
			continue
		}
		for k := 0; k < pc.writes; k++ {
			if c01.SkipForStalls() {
				continue
			}
			emit("pwr", k, playPipe(h, k, -1))
			for _, ck := range []byte{'d', 'p'} {
				if c01.SkipForStalls() {
					continue
				}
				hk := h
				hk.ctx = ck
				emit("pwr."+string(ck), k, playPipe(hk, k, -1))
			}
		}
		for j := 0; j < len(h.steps); j++ {
			if h.steps[j].send == "" {
				continue
			}
			if c01.SkipForStalls() {
				continue
			}
			emit("prd", j, playPipe(h, -1, j))
			for _, ck := range []byte{'d', 'p', 'n'} {
				if c01.SkipForStalls() {
					continue
				}
				hk := h
				hk.ctx = ck
				emit("prd."+string(ck), j, playPipe(hk, -1, j))
			}
		}
	}
	r.Exhaustive = append(r.Exhaustive, "each with both spellings of the peer's empty elements (<x/> and <x></x>): real SASL PLAIN + bind (initiator TCP, initiator WebSocket, receiver) and component handshakes: every byte prefix of the peer's stream (thorough; every 7th in quick), every failing Read, every failing Write (each with the kinds of error value of c01.ErrKinds: time-out with a live context, temporary, closed, context / EOF sentinels), a byte-by-byte peer with every failing read (= every byte position), cancellation before every peer step (contexts: WithCancel, far deadline + cancel, cancelled parent, near deadline expiring), cancellation inside every Read and every Write that itself completes, the peer silent afterwards (crd / cwr: the instant between two I/O operations, also those of a feature's own step); and over a real net.Pipe: cancellation while blocked in each write (peer stops reading) and in a read before each peer step")
}
