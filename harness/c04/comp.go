package c04

import (
	"context"
	"fmt"
	"net"
	"strings"

	"mellium.im/xmpp"
	"mellium.im/xmpp/component"
	"mellium.im/xmpp/jid"

	"verifharness/c01"
	"verifharness/common"
)

// The component handshake (component.NewSession) against the model Model/Component.lean.
//
//	comp <st0> <script> <fault>   ->   <events> <outcome> <state>
//
// script items (one per read): P processing instruction, S1 stream header with id, S0 without
// id, Sx a header FromStartElement rejects, K <handshake/>, X stream error, O other element,
// T character data, K2 <handshake></handshake>, Ko the start tag <handshake> alone, Kc the end tag
// </handshake> alone. Events: W / W! / Wb writes, R / Re / R! / Rb reads.

var compItems = []string{"P", "S1", "S0", "Sx", "K", "K2", "Ko", "Kc", "X", "O", "T"}

func compItem(code string) c01.Item {
	switch code {
	case "P":
		return c01.Item{Kind: 'P'}
	case "S1":
		return c01.Item{Kind: 'S', OK: true}
	case "S0":
		return c01.Item{Kind: 'S'}
	case "Sx":
		return c01.Item{Kind: 'S', NS: 1}
	case "K":
		return c01.Item{Kind: 'K'}
	case "K2":
		return c01.Item{Kind: 'K', NS: 2}
	case "Ko":
		return c01.Item{Kind: 'K', NS: 3}
	case "Kc":
		return c01.Item{Kind: 'K', NS: 4}
	case "X":
		return c01.Item{Kind: 'X'}
	case "O":
		return c01.Item{Kind: 'O'}
	}
	return c01.Item{Kind: 'T'}
}

func compCode(it c01.Item) string {
	switch it.Kind {
	case 'P':
		return "P"
	case 'S':
		switch {
		case it.NS == 1:
			return "Sx"
		case it.OK:
			return "S1"
		}
		return "S0"
	case 'K':
		switch it.NS {
		case 2:
			return "K2"
		case 3:
			return "Ko"
		case 4:
			return "Kc"
		}
		return "K"
	case 'X':
		return "X"
	case 'O':
		return "O"
	}
	return "T"
}

func compRender(it c01.Item, pos int) []byte {
	const ns = "http://etherx.jabber.org/streams"
	switch it.Kind {
	case 'P':
		return []byte(`<?xml version='1.0'?>`)
	case 'S':
		switch {
		case it.NS == 1:
			// an attribute FromStartElement cannot parse
			return []byte(fmt.Sprintf(`<stream:stream xmlns='jabber:component:accept' xmlns:stream='%s' from='comp.example.net' id='s%d' version='x.y'>`, ns, pos))
		case it.OK:
			return []byte(fmt.Sprintf(`<stream:stream xmlns='jabber:component:accept' xmlns:stream='%s' from='comp.example.net' id='s%d'>`, ns, pos))
		}
		return []byte(fmt.Sprintf(`<stream:stream xmlns='jabber:component:accept' xmlns:stream='%s' from='comp.example.net'>`, ns))
	case 'K':
		switch it.NS {
		case 2:
			return []byte(`<handshake></handshake>`)
		case 3:
			return []byte(`<handshake>`)
		case 4:
			return []byte(`</handshake>`)
		}
		return []byte(`<handshake/>`)
	case 'X':
		return []byte(fmt.Sprintf(`<stream:error xmlns:stream='%s'><host-gone xmlns='urn:ietf:params:xml:ns:xmpp-streams'/></stream:error>`, ns))
	case 'O':
		return []byte(`<y xmlns='urn:y'/>`)
	}
	return []byte(`zz<y xmlns='urn:y'/>`)
}

func doComp(e *c01.Emitter, codes []string, fault string, class string) {
	doCompRole(e, false, codes, fault, class)
}

// doCompRole: recv = the receiving side (component.ReceiveSession, `comp 8 …`): the negotiator is
// not implemented for it; it has to refuse with an error - no I/O, no panic, never a session.
func doCompRole(e *c01.Emitter, recv bool, codes []string, fault string, class string) {
	if c01.Aborted() {
		return
	}
	var script []c01.Item
	for _, c := range codes {
		script = append(script, compItem(c))
	}
	// `<fault>.<kind>`: the kind of context that is done (see c01.MakeCtx)
	// and / or (upper case) the kind of error value a failing operation returns (c01.ErrKinds)
	ctxKind, errKind := byte(0), byte(0)
	bare := fault
	if i := strings.Index(fault, "."); i >= 0 {
		for _, ch := range []byte(fault[i+1:]) {
			if ch >= 'A' && ch <= 'Z' {
				errKind = ch
			} else {
				ctxKind = ch
			}
		}
		bare = fault[:i]
	}
	cs := c01.Case{Script: script, Fault: bare, Ctx: ctxKind, ErrKind: errKind, Render: compRender,
		Custom: func(ctx context.Context, c net.Conn) (*xmpp.Session, error) {
			if recv {
				return component.ReceiveSession(ctx, jid.MustParse("comp.example.net"), []byte("secret"), c)
			}
			return component.NewSession(ctx, jid.MustParse("comp.example.net"), []byte("secret"), c)
		}}
	st0 := 0
	if recv {
		st0 = 8
	}
	res := c01.Exec(cs)
	var evs []string
	for _, ev := range res.Events {
		s := ev.String(nil)
		switch {
		case strings.HasPrefix(s, "Wb"):
			s = "Wb"
		case strings.HasPrefix(s, "W") && strings.HasSuffix(s, "!"):
			s = "W!"
		case strings.HasPrefix(s, "W"):
			s = "W"
		}
		evs = append(evs, s)
	}
	var sc []string
	for _, it := range script {
		sc = append(sc, compCode(it))
	}
	line := fmt.Sprintf("comp %d %s %s", st0, common.Join(sc, ","), fault)
	e.R.Line(line, fmt.Sprintf("%s %s %d", common.Join(evs, ","), res.Outcome, res.State))
	e.R.Case(line, true, "component/"+class+"/"+res.Outcome)
	lines := []string{"C04 " + line}
	if res.Outcome == "PANIC" {
		role := "initiator"
		if recv {
			role = "receive"
		}
		e.R.Fail("panic", "component-"+role, lines, "the component handshake panicked: "+res.Err)
	}
	if recv && res.Outcome == "done" {
		e.R.Fail("fail-closed", "component:receive-established", lines, "component.ReceiveSession reported a session although the receiving side of the handshake is not implemented")
	}
	for _, f := range c01.Judge(cs, res) {
		if f.Prop == "C04" {
			e.R.Fail(f.Clause, "component:"+f.Key, lines, f.Detail+" | "+strings.Join(evs, ",")+" "+res.Outcome)
		}
	}
	// the ready bit only together with a nil error, and only after the acknowledgement
	if res.Outcome == "done" {
		acked, withID := false, false
		for _, c := range codes {
			if c == "K" || c == "K2" || c == "Kc" {
				acked = true
			}
			if c == "S1" {
				withID = true
			}
		}
		if !acked || res.State&c01.Ready == 0 {
			e.R.Fail("fail-closed", "component:ready-without-ack", lines, "the component session was established without a handshake acknowledgement")
		}
		if !withID {
			e.R.Fail("fail-closed", "component:ready-without-stream-id", lines, "the component session was established although the peer's stream header carried no stream id (the handshake digest is computed over it)")
		}
	}
}

// runComponent enumerates peer scripts and fault points of the component handshake.
func runComponent(e *c01.Emitter) {
	r := e.R
	// every script of length <= 3 (quick) / 4 (thorough) over the eight items
	maxLen := r.Pick(3, 4)
	var rec func(prefix []string)
	rec = func(prefix []string) {
		doComp(e, prefix, "-", "script")
		if len(prefix) == maxLen {
			return
		}
		for _, it := range compItems {
			rec(append(append([]string(nil), prefix...), it))
		}
	}
	rec(nil)
	// the good handshakes under every fault
	for _, good := range [][]string{{"S1", "K"}, {"P", "S1", "K"}, {"S1", "K2"}, {"S1", "Ko", "Kc"}, {"P", "S1", "Ko", "T", "Kc"}} {
		ops := len(good) + 2
		for k := 0; k <= ops; k++ {
			doComp(e, good, fmt.Sprint(k), "fault")
			doComp(e, good, fmt.Sprint(k, "+"), "fault")
			for _, ek := range errKindsFor(r, k) {
				doComp(e, good, fmt.Sprintf("%d.%c", k, ek), "fault")
			}
		}
		for _, suffix := range []string{"", ".d", ".p", ".n"} {
			// a deadline that really expires costs real time: shortest handshakes only in the quick tier
			if suffix == ".n" && r.Quick() && len(good) != 2 {
				continue
			}
			for k := 0; k <= ops; k++ {
				if !c01.SkipForStalls() {
					doComp(e, good, fmt.Sprintf("B%d%s", k, suffix), "blocked-cancel")
				}
			}
			for n := 0; n <= ops+1; n++ {
				if !c01.SkipForStalls() {
					doComp(e, good, fmt.Sprintf("C%d%s", n, suffix), "cancel")
				}
			}
		}
		for n := 0; n < len(good); n++ {
			doComp(e, good[:n], "-", "cut")
		}
	}
	// the receiving side (component.ReceiveSession): whatever the peer sends, whatever fails
	for _, sc := range [][]string{nil, {"S1"}, {"P", "S1", "K"}, {"S1", "K2"}, {"X"}, {"T"}} {
		doCompRole(e, true, sc, "-", "receive")
		doCompRole(e, true, sc, "0", "receive")
		doCompRole(e, true, sc, "C0", "receive")
	}
	r.Exhaustive = append(r.Exhaustive, fmt.Sprintf("component handshake: every peer script of length <= %d over 8 item kinds; the good handshakes under every failing / blocking operation, every cancellation instant (four kinds of context) and every end of input", maxLen))
}
