package main

import "verifharness/c08"

func init() { runners["C08"] = c08.Run; facts["C08"] = c08.Facts }
