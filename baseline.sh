#!/bin/sh
# Runs the repository's pinned test suite (guard OFF: no build tag) and compares with
# /root/.vp/BASELINE.json: every stable_pass test must still pass.  Usage: ./baseline.sh [repo]
REPO=${1:-/repo}
export GOFLAGS=-mod=mod GOPROXY=off GOSUMDB=off GOTOOLCHAIN=local
OUT=$(mktemp /var/tmp/xv-baseline.XXXXXX)
(cd "$REPO" && go test -mod=mod -json -vet=off -count=1 -timeout 25m ./... > "$OUT" 2>/dev/null)
python3 - "$OUT" <<'PY'
import json,sys
passed=set(); failed=set()
for l in open(sys.argv[1]):
    try: e=json.loads(l)
    except Exception: continue
    if 'Test' in e and e.get('Action') in ('pass','fail'):
        (passed if e['Action']=='pass' else failed).add(e['Package']+'::'+e['Test'])
base=set(json.load(open('/root/.vp/BASELINE.json'))['stable_pass'])
missing=sorted(base-passed)
print('baseline: %d stable, %d passed now, %d failed now, %d of the stable set not passing'%(len(base),len(passed),len(failed),len(missing)))
for m in missing[:40]: print('  NOT PASSING', m)
sys.exit(1 if missing else 0)
PY
rc=$?
rm -f "$OUT"
exit $rc
