#!/bin/sh
# MANIFEST.setup_cmd: build the framework offline from files on disk only.
set -e
cd "$(dirname "$0")"
export GOFLAGS=-mod=mod GOPROXY=off GOSUMDB=off GOTOOLCHAIN=local
mkdir -p work evidence replays harness/bin lean/XmppModel/Generated
(cd harness && go build -tags verif -o bin/harness .)
# regenerate every fact file from /repo before the first lake build
for p in $(ls meta | grep "^C" | sed 's/\.json$//'); do
  ./check "$p" --facts-only || true
done
(cd lean && lake build xdriver)
for p in $(ls meta | grep "^C" | sed 's/\.json$//'); do
  (cd lean && lake build "XmppModel.Props.$p") || echo "setup: Props.$p did not build (the check will report it)"
done
echo "setup ok"
